"""C11 -- bulk/interrupt IN endpoint: USBInTransferManager (luna/gateware/usb/usb2/transfer.py) as wired by
USBStreamInEndpoint (luna/gateware/usb/usb2/endpoints/stream.py)."""
import sys
from harness.core import Target
from harness import tie
from harness.tie import Obligation

PID = "C11"
TIE_IMPORTS = "From LunaLib Require Import ReachDep C11Reach.\nFrom LunaModel Require Import InXfer InXfer_proofs.\n"

# port order = bit order of the packed input word (must agree with InXfer.ix_in_of); `rcv` is the GHOST
# "the host receives the packet completing in this cycle" carried on stream.first, which the module ignores
IN_PORTS = ["valid", "last", "flush", "is_in", "rfr", "new_token", "ack", "tx_ready", "rcv", "endpoint", "clear_halt", "payload"]
OUT_PORTS = ["stream_ready", "tx_valid", "tx_first", "tx_last", "nak", "pid", "tx_payload"]


def mk_target(prefix, mps, ep, role):
    def build():
        from luna.gateware.usb.usb2.endpoints.stream import USBStreamInEndpoint
        d = USBStreamInEndpoint(endpoint_number=ep, max_packet_size=mps)
        i = d.interface; tk = i.tokenizer
        ins = [("valid", d.stream.valid), ("last", d.stream.last), ("flush", d.flush),
               ("is_in", tk.is_in), ("rfr", tk.ready_for_response), ("new_token", tk.new_token),
               ("ack", i.handshakes_in.ack), ("tx_ready", i.tx.ready), ("rcv", d.stream.first),
               ("endpoint", tk.endpoint), ("clear_halt", i.clear_endpoint_halt_in.as_value()),
               ("payload", d.stream.payload)]
        outs = [("stream_ready", d.stream.ready), ("tx_valid", i.tx.valid), ("tx_first", i.tx.first),
                ("tx_last", i.tx.last), ("nak", i.handshakes_out.nak), ("pid", i.tx_pid_toggle),
                ("tx_payload", i.tx.payload)]
        return d, ins, outs
    t = Target(f"{prefix}_m{mps}_e{ep}", build)
    t.params = dict(mps=mps, ep=ep); t.role = role
    return t


# ---------------------------------------------------------------------------------------------------
# closed-loop trace generation: a scripted host + stream producer reacting to the REAL module's outputs
# (so that the environment assumptions stay satisfied whatever the module does)
def clr_word(enable, direction, number):
    return (enable & 1) | ((direction & 1) << 1) | ((number & 15) << 2)


def host_script(target, rng, ncyc, *, payloads=None, p_valid=0.6, p_ready=0.7, p_rcv=0.85, p_ack=0.8,
                p_flush=0.03, clear_halt=False, foreign=0.15, poll_gap=(0, 4)):
    """Returns one input trace (list of dicts).  Legal host: token (new_token, then ready_for_response d cycles
    later), tx.ready pattern while the packet is sent, ACK only for packets it received (ghost rcv) and only
    before its next token; ACKs get lost with probability 1 - p_ack.  Stream producer: transfers whose
    lengths cluster around multiples of mps, valid gaps, occasional flush."""
    from amaranth.sim import Simulator
    mps, ep = target.params["mps"], target.params["ep"]
    elab, ins, outs = target.build()
    insig = dict(ins); outsig = dict(outs)
    sim = Simulator(elab)
    sim.add_clock(1e-6, domain="usb")
    trace = []

    def new_transfer():
        r = rng.random()
        if r < 0.7:
            return max(1, rng.choice([1, 2, mps - 1, mps, mps + 1, 2 * mps - 1, 2 * mps, 2 * mps + 1, 3 * mps]))
        if r < 0.85:
            return rng.randint(1, 3 * mps + 2)
        return None      # a transfer that never ends (last never asserted): only full packets / flushes

    async def tb(ctx):
        # producer
        remaining = new_transfer(); cur = None
        # host
        hstate = "idle"; timer = rng.randint(0, 6); tok_ep = ep; tok_in = 1
        busy = False; pending_ack = None; flush_hold = 0; awaiting = False
        for t in range(ncyc):
            c = dict(valid=0, last=0, flush=0, is_in=tok_in, rfr=0, new_token=0, ack=0, tx_ready=int(rng.random() < p_ready),
                     rcv=int(rng.random() < p_rcv), endpoint=tok_ep, clear_halt=0, payload=0)
            # ---- stream producer
            if cur is None and rng.random() < p_valid:
                b = rng.choice(payloads) if payloads else rng.randrange(256)
                cur = (b, int(remaining == 1) if remaining is not None else 0)
            if cur is not None and rng.random() < 0.93:       # sometimes drop valid although not accepted
                c["valid"] = 1; c["payload"], c["last"] = cur
            else:
                c["payload"] = rng.choice(payloads) if payloads else rng.randrange(256)
                c["last"] = int(rng.random() < 0.3)
            if flush_hold > 0:
                c["flush"] = 1; flush_hold -= 1
            elif rng.random() < p_flush:
                c["flush"] = 1; flush_hold = rng.choice([0, 0, 1, 3, 8])
            # ---- host
            if hstate == "idle":
                if timer == 0:
                    c["new_token"] = 1
                    if rng.random() < foreign:
                        tok_ep, tok_in = rng.choice([((ep + 1 + rng.randrange(15)) % 16, 1), (ep, 0)])
                    else:
                        tok_ep, tok_in = ep, 1
                    c["endpoint"], c["is_in"] = tok_ep, tok_in
                    hstate = "token"; timer = rng.choice([1, 1, 2, 3])
                    pending_ack = None; awaiting = False
                else:
                    timer -= 1
                    if pending_ack is not None:
                        if pending_ack == 0:
                            c["ack"] = 1; pending_ack = None; awaiting = False
                        else:
                            pending_ack -= 1
                    if clear_halt and pending_ack is None and not awaiting and rng.random() < 0.06:
                        c["clear_halt"] = clr_word(1, rng.choice([1, 1, 1, 0]), rng.choice([ep, ep, ep, (ep + 1) % 16]))
            elif hstate == "token":
                timer -= 1
                if timer == 0:
                    c["rfr"] = 1; hstate = "response"
            for n, v in c.items():
                ctx.set(insig[n], v)
            o = {n: ctx.get(s) for n, s in outsig.items()}
            trace.append(c)
            # ---- observe
            if c["valid"] and o["stream_ready"]:
                cur = None
                if remaining is not None:
                    remaining -= 1
                    if remaining == 0: remaining = new_transfer()
            completed = False
            if hstate == "response":
                # the cycle of ready_for_response: NAK / ZLP / data from the next cycle on / nothing (foreign token)
                if o["tx_valid"] and o["tx_last"] and not o["tx_first"] and not busy:
                    completed = True
                elif o["nak"] or tok_ep != ep or not tok_in:
                    hstate = "idle"; timer = rng.randint(*poll_gap)
                else:
                    hstate = "data"; busy = True
                    # the module may also have ignored the token (e.g. it is waiting for a handshake): give up after a while
                    timer = 3 * mps + 12
            elif hstate == "data":
                timer -= 1
                if o["tx_valid"] and o["tx_last"] and c["tx_ready"]:
                    completed = True
                elif not o["tx_valid"] and timer <= 0:
                    busy = False; hstate = "idle"; timer = rng.randint(*poll_gap)
            if completed:
                busy = False; hstate = "idle"; awaiting = True
                timer = rng.choice([2, 3, 4, 6])
                if c["rcv"] and rng.random() < p_ack:
                    pending_ack = rng.choice([0, 0, 1])
                else:
                    pending_ack = None
            await ctx.tick("usb")
    sim.add_testbench(tb)
    sim.run()
    return trace


def noise_trace(target, rng, ncyc, payloads=None):
    ep = target.params["ep"]
    tr = []
    for _ in range(ncyc):
        tr.append(dict(valid=int(rng.random() < 0.6), last=int(rng.random() < 0.2), flush=int(rng.random() < 0.1),
                       is_in=int(rng.random() < 0.8), rfr=int(rng.random() < 0.3), new_token=int(rng.random() < 0.15),
                       ack=int(rng.random() < 0.15), tx_ready=int(rng.random() < 0.7), rcv=rng.randrange(2),
                       endpoint=rng.choice([ep, ep, ep, rng.randrange(16)]), clear_halt=0,
                       payload=rng.choice(payloads) if payloads else rng.randrange(256)))
    return tr


_TRACE_CACHE = {}
SMALL = 8       # up to this packet size the N-packed specification monitor (tie.cmon) is fast enough


def traces(target, rng, tier):
    out = _traces(target, rng, tier)
    _TRACE_CACHE[target.name] = (target, out)
    return out


def _traces(target, rng, tier):
    mps = target.params["mps"]
    n = (14 if mps <= 16 else 8) if tier == "quick" else (30 if mps <= 16 else 16)
    if target.role == "r": n = 8 if tier == "quick" else 12
    base = 160 + 14 * min(mps, 64)
    out = []
    for k in range(n):
        kind = k % 7
        if kind == 6:
            out.append(noise_trace(target, rng, rng.randint(20, 150)))
            continue
        out.append(host_script(target, rng, rng.randint(base // 2, base),
                               p_valid=rng.choice([0.15, 0.5, 0.9, 1.0]), p_ready=rng.choice([0.4, 0.8, 1.0]),
                               p_rcv=rng.choice([0.6, 0.9, 1.0]), p_ack=rng.choice([0.5, 0.8, 1.0]),
                               p_flush=rng.choice([0.0, 0.03, 0.2]), poll_gap=rng.choice([(0, 2), (0, 4), (3, 12)])))
    return out


# ---------------------------------------------------------------------------------------------------
def rlock_fast(name, target, *, mps, ep, toks, vals, clrs, irrs, fuel=200000, describe="",
               gnorm="normN", mstep=None, wf_step=None):
    """R lock-step obligation with a state-dependent alphabet (InXfer.ix_alpha) and decode-once closure
    (coq/Lib/C11Reach.v): for every input trace whose word of each cycle lies in the alphabet of the model's
    FSM state of that cycle, the regenerated netlist and the model produce identical outputs (tx.payload
    compared only while tx.valid)."""
    G = target.modname
    args = f"ix_state mstep (ix_enc {mps}%nat) (ix_dec {mps}%nat) alpha"
    mstep = mstep or f"ix_mstep_n true true {mps}%nat {ep}"
    wf_step = wf_step or f"ix_wf_step {mps}%nat {ep}"
    defs = f"""
Module {name}.
  Definition gnorm := {gnorm}.
  Definition step := fun st i => let (s, o) := {G}.step st i in (s, gnorm o).
  Definition mstep := {mstep}.
  Definition alpha := ix_alpha {toks} {vals} {clrs} {irrs}.
  Definition m0 := ix_enc {mps}%nat (ix_init {mps}%nat).
  (* runtime form (any input word): lock step of the normalised outputs *)
  Definition mon := fun m i o => rld_mon ix_state mstep (ix_enc {mps}%nat) (ix_dec {mps}%nat) m i (gnorm o).
  Definition bfs := Eval vm_compute in fexplore step {args} {fuel} {G}.init m0.
  Definition ob_cex := Eval vm_compute in cex bfs.
  Definition ob_left := Eval vm_compute in length (front bfs).
  Definition ob_states := Eval vm_compute in length (allst bfs).
End {name}.
"""
    thms = f"""
Module {name}_T.
  Import {name}.
  Definition L := Eval vm_compute in allst bfs.
  Lemma L_closed : fclosed step {args} L = true.
  Proof. vm_cast_no_check (@eq_refl bool true). Qed.
  Lemma init_in : pmem {G}.init m0 (of_list L) = true.
  Proof. vm_compute. reflexivity. Qed.
  Theorem tie : forall tr, alpha_ok ix_state mstep alpha (ix_init {mps}%nat) tr = true ->
    map gnorm (run {G}.step {G}.init tr) = run mstep (ix_init {mps}%nat) tr.
  Proof.
    intros tr HA. rewrite <- run_norm.
    apply (R_lockstep_dep step ix_state mstep (ix_enc {mps}%nat) (ix_dec {mps}%nat) (ix_wf {mps}%nat) alpha
             (ix_dec_enc {mps}%nat) ({wf_step}) L {G}.init (ix_init {mps}%nat)).
    - apply fclosed_closed_dep. exact L_closed.
    - exact init_in.
    - apply ix_wf_init.
    - exact HA.
  Qed.
End {name}_T.
"""
    return Obligation(name, "R-lockstep(state-dependent alphabet)", target, defs, thms, [f"{name}_T.tie"], describe,
                      mon_expr=f"{name}.mon", m0_expr=f"{name}.m0")


def coq_toks(ep, full):
    other = ep ^ 1
    if full:
        l = [(e, a, b) for e in (ep, other) for a in (1, 0) for b in (1, 0)]
    else:
        l = [(ep, 1, 1), (ep, 1, 0), (ep, 0, 1), (other, 1, 1)]
    return "[" + "; ".join(f"({e}, {'true' if a else 'false'}, {'true' if b else 'false'})" for e, a, b in l) + "]"


def r_configs(tier):
    """(mps, ep, full token set, payload values, ignored-input settings)"""
    if tier == "quick":
        return [(3, 2, False, [165], "[false]")]      # a size that is not a power of two
    return [(1, 3, True, [0, 165], "[false; true]"),
            (2, 1, False, [0, 165], "[false]"),
            (2, 3, True, [165], "[false; true]"),
            (3, 2, False, [165], "[false]")]


def targets(tier):
    if tier == "quick":
        cfg = [(5, 4), (64, 15)]
    else:
        cfg = [(1, 1), (2, 1), (3, 2), (5, 4), (8, 3), (64, 15), (100, 7), (512, 1), (1024, 2)]
    ts = [mk_target("sin", m, e, "corr") for m, e in cfg]
    for (m, e, full, vals, irrs) in r_configs(tier):
        t = mk_target("rsin", m, e, "r"); t.rcfg = (full, vals, irrs)
        ts.append(t)
    return ts


def norm_expr():
    # tx.payload is compared only while tx.valid is high
    return "normN"


def obligations(targets, tier):
    obs = []
    for t in targets:
        if t.role != "r": continue
        mps, ep = t.params["mps"], t.params["ep"]; full, vals, irrs = t.rcfg
        obs.append(rlock_fast(f"ob_{t.name}", t, mps=mps, ep=ep, toks=coq_toks(ep, full),
                              vals="[" + "; ".join(map(str, vals)) + "]", clrs="[0]", irrs=irrs,
                              describe=f"USBStreamInEndpoint(endpoint_number={ep}, max_packet_size={mps}) == FSM/double-buffer model in "
                                       f"lock step on all traces (any length) over the state-dependent alphabet: stream valid/last/flush "
                                       f"free, payload in {vals}, token fields {'all 8 combinations of' if full else '4 combinations of'} "
                                       f"(endpoint in {{{ep},{ep ^ 1}}}, is_in, ready_for_response), new_token/ack/tx.ready/ghost free where "
                                       f"the FSM state reads them and all-0/all-1 elsewhere; no clear-halt"))
    for t in targets:
        mps, ep = t.params["mps"], t.params["ep"]
        desc = f"USBStreamInEndpoint(endpoint_number={ep}, max_packet_size={mps})"
        if mps <= SMALL or "--replay" in sys.argv:
            obs.append(tie.cmon(f"spec_{t.name}", t, mon=f"(c11_monN {mps}%nat {ep})", m0="(sp_enc sp_init)",
                            describe=desc + ": the C11 specification monitor (host model, exactly-once, packet size, ZLP, retry, "
                                            "NAK rules) over simulator traces of the real module driven by a scripted host with lost "
                                            "packets / lost ACKs"))
        if "--replay" in sys.argv:      # lets `./check C11 --replay` re-judge a recorded model-vs-implementation difference
            obs.append(tie.cmon(f"corr_{t.name}", t,
                                mon=f"(fun m i o => rld_mon ix_state (ix_mstep_n true true {mps}%nat {ep}) (ix_enc {mps}%nat) "
                                    f"(ix_dec {mps}%nat) m i (normN o))", m0=f"(ix_enc {mps}%nat (ix_init {mps}%nat))",
                                describe=desc + " vs the FSM/double-buffer model (lock step, tx.payload while tx.valid)"))
    return obs


def correspondence(tier, rng, bdir, cov):
    """Over simulator traces of the real module (every target): (1) at the larger packet sizes the typed specification
    monitor InXfer.c11_bad_code (the N-packed monitor state used by tie.cmon is too slow there); (2) correspondence with
    the hand model, every cycle, tx.payload compared while tx.valid (Machine.corr_codes).  A difference is reported with
    the concrete input prefix and the simulator's outputs."""
    from harness import core
    hdr = tie.HEADER + TIE_IMPORTS
    for name, (t, trs) in _TRACE_CACHE.items():
        mps, ep = t.params["mps"], t.params["ep"]
        outs = t.simulate(trs)
        tin = [[t.pack_in(c) for c in tr] for tr in trs]
        tout = [[t.pack_out(x) for x in ou] for ou in outs]
        cyc = sum(len(x) for x in tin)
        desc = f"USBStreamInEndpoint(endpoint_number={ep}, max_packet_size={mps})"
        if mps > SMALL:
            defs = ("Definition ios : list (list (N * N)) := [" +
                    ";\n ".join("[" + "; ".join(f"({i},{x})" for i, x in zip(a, b)) + "]" for a, b in zip(tin, tout)) + "].\n")
            res = core.coq_eval(bdir, f"Spec_{name}", hdr, defs, [("codes", f"map (c11_bad_code {mps}%nat {ep}) ios")])
            codes = core.parse_nums(res["codes"]) if res["codes"].strip() != "[]" else []
            cov["correspondence"].append(dict(obligation=f"spec_{name}", target=name, traces=len(tin), cycles=cyc,
                                              describe=desc + ": C11 specification monitor (typed) over simulator traces"))
            for k, c in enumerate(codes):
                if c != 0:
                    return dict(property=PID, obligation=f"spec_{name}", target=name,
                                describe=desc + ": C11 specification monitor over a simulator trace of /repo",
                                inputs=trs[k][:c], outputs=outs[k][:c], failing_cycle=c - 1, confirmed_on_pysim=True,
                                how="specification monitor evaluated over a simulator trace of /repo")
        defs = ("Definition tin : list (list N) := [" + ";\n ".join(core.nlist(x) for x in tin) + "].\n" +
                "Definition tout : list (list N) := [" + ";\n ".join(core.nlist(x) for x in tout) + "].\n")
        res = core.coq_eval(bdir, f"Corr_{name}", hdr, defs,
                            [("codes", f"corr_codes (ix_mstep true true {mps}%nat {ep}) normN (ix_init {mps}%nat) tin tout")])
        codes = core.parse_nums(res["codes"]) if res["codes"].strip() != "[]" else []
        cov["correspondence"].append(dict(obligation=f"corr_{name}", target=name, traces=len(tin), cycles=cyc,
                                          describe=desc + " vs the FSM/double-buffer model on simulator traces, full-range payloads"))
        for k, c in enumerate(codes):
            if c != 0:
                res2 = core.coq_eval(bdir, f"CorrD_{name}", hdr, f"Definition one : list N := {core.nlist(tin[k][:c])}.\n",
                                     [("mo", f"run (ix_mstep true true {mps}%nat {ep}) (ix_init {mps}%nat) one")])
                mo = core.parse_nums(res2["mo"])
                return dict(property=PID, obligation=f"corr_{name}", target=name,
                            describe=desc + ": the implementation's outputs differ from the specification-satisfying model "
                                            "(tx.payload compared while tx.valid)",
                            inputs=trs[k][:c], outputs=outs[k][:c],
                            model_outputs=[core.nir2coq.unpack(t.layout.outputs, x) for x in mo],
                            failing_cycle=c - 1, confirmed_on_pysim=True,
                            how="model-vs-implementation difference on a simulator trace of /repo (concrete input prefix)")
    return None


def tie_theorems(targets, tier):
    s = ""
    for t in targets:
        if t.role != "r": continue
        mps, ep = t.params["mps"], t.params["ep"]
        s += f"""
Theorem C11_{t.name} : forall tr,
  alpha_ok ix_state ob_{t.name}.mstep ob_{t.name}.alpha (ix_init {mps}%nat) tr = true ->
  c11_check {mps}%nat {ep} sp_init
    (combine (map ix_in_of tr) (map ix_out_of (map normN (run {t.modname}.step {t.modname}.init tr)))) = true.
Proof. intros tr H. change normN with ob_{t.name}.gnorm. rewrite (ob_{t.name}_T.tie tr H). apply packed_refines. lia. Qed.
"""
    return s


def tie_theorem_names(targets, tier):
    return [f"C11_{t.name}" for t in targets if t.role == "r"]


ASSUMPTIONS = [
    "DEFECT found by this check, repaired in /repo by commit a514280 (findings/C11-stale-send-position.json/.diff): WAIT_TO_SEND "
    "addressed the packet memory with send_position, which is only cleared during that state; an IN token answerable in the FIRST "
    "cycle of WAIT_TO_SEND after a packet whose length is not a multiple of the memory's address range sent a wrong first byte.  "
    "The model and every tie use the repaired behaviour (read address 0 in WAIT_TO_SEND); Properties/C11.v refutes the behaviour as "
    "found (C11_unfixed_violates)",
    "host model (part of the specification c11_mon): a packet received intact (ghost input bit per cycle, carried on stream.first which "
    "the module ignores) is taken iff its PID equals the host's expected toggle, else discarded; either way the host ACKs, and the ACK "
    "may be lost.  Environment: an ACK strobe arrives only while the handshake of a completed packet is outstanding and the host "
    "received that packet; ACK and new_token strobes never coincide; no ClearFeature(ENDPOINT_HALT) for this endpoint (C14)",
    "`discard` is tied to 0 (not part of the property's quantifier); generate_zlps = 1 and start_with_data1 = 0 as wired by "
    "USBStreamInEndpoint",
    "flush is sampled only in WAIT_FOR_DATA and at an ACK (a flush pulse at another time has no effect); the specification does not "
    "require more: flush only adds packet boundaries",
    "netlist = model lock-step ties (max_packet_size 3; thorough: 1, 2, 3) quantify over all traces, of any length, whose input word of "
    "each cycle lies in the alphabet of the model's FSM state of that cycle (InXfer.ix_alpha): every input the module reads in that "
    "state takes every combination (payload from a 1-3 value set, tokenizer.endpoint from {ep, ep xor 1}), inputs it ignores there are "
    "all-0 or all-1; tx.payload is compared while tx.valid is high.  Full-range payloads / endpoints / sizes up to 512 (1024): "
    "correspondence and the specification monitor on simulator traces",
]
LEVEL_TEXT = ("Machine-checked proof. (1) For every max_packet_size >= 1, every endpoint number and every input history (stream bytes, last "
              "markers, valid gaps, flush, token timing, tx.ready pattern, packets lost on the way to the host, lost ACKs; any length) the "
              "model of USBStreamInEndpoint/USBInTransferManager (FSM, two packet memories with fill counts and stream-ended flags, registered "
              "read ports, data_pid, buffer toggle) never makes the specification monitor c11_mon report a violation "
              "(C11_in_endpoint_meets_spec): IN tokens are answered by NAK exactly when no packet is due, else by a ZLP or a data packet of "
              "at most max_packet_size bytes; a timed-out packet is repeated with identical PID and payload; every new packet carries the "
              "toggle the host expects; what the host takes is the next part of the stream, never straddles a `last` marker, and a "
              "full-size packet ending a transfer is followed by a ZLP; a packet that is not a retry is full-size unless it ends the "
              "transfer, is the owed ZLP or was queued by a flush (no premature short packet); stream.ready is high whenever fewer than "
              "max_packet_size bytes without a `last` marker are pending.  Proof: abstraction function from model states (plus three ghost "
              "bits) to monitor states, one step lemma per FSM state, induction over the trace.  (2) Consequence "
              "C11_exactly_once_in_order: bytes taken by the host ++ bytes still pending = bytes handed over by the stream, with at most "
              "2*max_packet_size pending.  (3) For max_packet_size 3 (thorough: 1, 2, 3) the netlist regenerated from /repo is proved "
              "equal to the model on all traces over a state-dependent input alphabet (certified product reachability), giving "
              "C11_<cfg>: the netlist's decoded run satisfies the specification monitor.  (4) Not proved, checked on simulator traces of "
              "the real module driven by a scripted host (closed loop): model correspondence and the specification monitor at sizes "
              "5..64 (thorough 1..1024) with full-range payloads.  The defect this check found (see ASSUMPTIONS) is repaired in /repo (a514280); "
              "the pre-repair behaviour is refuted in Properties/C11.v.")
LEVEL_NOTE = ("Trusted: Coq kernel + vm_compute, Amaranth elaboration, nir2coq.py/Netlist.v (validated each run against pysim), the host model "
              "inside c11_mon.  The model theorems are about the REPAIRED behaviour (fix_addr = true); Properties/C11.v also shows that the "
              "behaviour as found (fix_addr = false) violates the specification (C11_unfixed_violates).  The netlist ties restrict data "
              "values and, in states where an input is ignored by the module, that input to all-0/all-1; trace length and timing are "
              "unrestricted.  Liveness (every accepted byte is eventually delivered) is not claimed: only the bounded backlog.")
TECHNIQUE = ("Rocq proof: refinement of the double-buffer FSM model to an observer specification containing a host model (abstraction "
             "function + per-state step lemmas, parametric in max_packet_size) + certified product-reachability of the regenerated netlist "
             "over a state-dependent alphabet + closed-loop simulator correspondence and runtime specification monitor")
