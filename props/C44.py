"""C44 -- idle handshake (luna/gateware/usb/usb3/link/idle.py: IdleHandshakeHandler) and U0 link
maintenance timers (luna/gateware/usb/usb3/link/timers.py: LinkMaintenanceTimers)."""
from harness.core import Target
from harness import tie

PID = "C44"

# The correspondence traces of the timers at realistic clock frequencies are long (> 2 * Tr cycles in ONE list
# literal); coqc's parser needs more than the default 8 MB stack for them.  Child processes inherit the limit.
try:
    import resource
    _soft, _hard = resource.getrlimit(resource.RLIMIT_STACK)
    resource.setrlimit(resource.RLIMIT_STACK, (_hard, _hard))
except Exception:      # pragma: no cover
    pass
ASSUMPTIONS = [
    "one list element = one ss clock cycle = 4 received and 4 transmitted symbols; 'sixteen symbols sent' = enable high for "
    "4 (RX_CYCLES_REQUIRED) full cycles before the reporting cycle (the link layer transmits logical idle while enable is high)",
    "a 'valid logical-idle symbol' is a symbol of a word with sink.valid = 1, data = 0, ctrl = 0; eight consecutive ones = two "
    "such words in adjacent cycles (a cycle with sink.valid = 0 breaks consecutiveness: conservative reading)",
    "idle R tie alphabet (IdleHs.ih_alpha, 160 words): enable x valid x (data, ctrl) in {idle word, all-ones, each single data "
    "bit, each single ctrl bit}; random full-width words: correspondence only",
    "timers: Tk = floor(f * 10 us), Tr = floor(f * 1 ms) computed exactly (integer arithmetic) in props/C44.py and compared "
    "with what the code derives from ss_clock_frequency (float) through the tie; R tie at f = 300 kHz and 350 kHz (10 us = 3.5 cycles, not whole) (quick) + "
    "{400 kHz, 700 kHz, 1 MHz, 1.6 MHz} (thorough), all 16 input combinations per cycle; correspondence at 2.5 MHz and 1.5625 MHz (10 us = 15.625 cycles) (quick), 15.625 MHz (thorough) + 12.5 MHz and 125 MHz = LUNA's default (thorough)",
    "timers: the registers are Signal(range(T)) and wrap at 2^w; the exact-cycle theorems are stated for the first 2^w quiet "
    "cycles (the code comments that roll-over is harmless because the strobe's consumer restarts the timer)",
    "the 10 us keepalive interval of the code is far below the 10 ms bound of the property text; time = cycles / f",
]
TIE_IMPORTS = ("From LunaLib Require Import SsWords.\n"
               "From LunaModel Require Import IdleHs IdleHs_proofs LinkTimers LinkTimers_proofs.\n")


# ---------------------------------------------------------------------------------------------
def mk_idle(n):
    def build():
        from luna.gateware.usb.usb3.link.idle import IdleHandshakeHandler
        if n == 4:
            d = IdleHandshakeHandler()
            assert d.RX_CYCLES_REQUIRED == 4
        else:
            d = type(f"IdleHandshakeHandler{n}", (IdleHandshakeHandler,), dict(RX_CYCLES_REQUIRED=n))()
        return (d, [("enable", d.enable), ("valid", d.sink.valid), ("data", d.sink.data), ("ctrl", d.sink.ctrl)],
                [("idle_detected", d.idle_detected), ("idle_handshake_complete", d.idle_handshake_complete)])
    t = Target(f"idle_n{n}", build)
    t.kind = "idle"; t.params = dict(n=n)
    return t


def exact_cycles(f_hz):
    """floor(f * 10us), floor(f * 1ms) in exact integer arithmetic (f in Hz, integer)."""
    return (f_hz * 10) // 10**6, f_hz // 1000


def mk_timers(f_hz, big=False):
    def build():
        from luna.gateware.usb.usb3.link.timers import LinkMaintenanceTimers
        d = LinkMaintenanceTimers(ss_clock_frequency=float(f_hz))
        return (d, [("enable", d.enable), ("link_command_received", d.link_command_received),
                    ("packet_received", d.packet_received), ("link_command_transmitted", d.link_command_transmitted)],
                [("schedule_keepalive", d.schedule_keepalive), ("transition_to_recovery", d.transition_to_recovery)])
    t = Target(f"timers_{f_hz}", build)
    tk, tr = exact_cycles(f_hz)
    t.kind = "timers"; t.params = dict(f=f_hz, tk=tk, tr=tr); t.big = big
    return t


def targets(tier):
    ts = [mk_idle(4)]
    # 350 kHz and 1.5625 MHz: 10 us is NOT a whole number of cycles (3.5 / 15.625), so Tr = floor(f * 1 ms) = 350 / 1562
    # differs from 100 * Tk = 300 / 1500: the recovery timeout must be derived from 1 ms, not from the truncated keepalive count
    ts += [mk_timers(300_000), mk_timers(350_000), mk_timers(2_500_000, big=True), mk_timers(1_562_500, big=True)]
    if tier != "quick":
        ts += [mk_idle(1), mk_idle(2), mk_idle(3), mk_idle(7)]
        ts += [mk_timers(400_000), mk_timers(700_000), mk_timers(1_000_000), mk_timers(1_600_000), mk_timers(12_500_000, big=True), mk_timers(15_625_000, big=True),
               mk_timers(125_000_000, big=True)]
    return ts


# ---------------------------------------------------------------------------------------------
def idle_traces(target, rng, tier):
    n = 40 if tier == "quick" else 300
    out = []
    for k in range(n):
        style = k % 4
        tr = []
        en = rng.getrandbits(1)
        for _ in range(rng.randint(1, 50)):
            if rng.random() < (0.1 if style != 3 else 0.4):
                en ^= 1
            if style == 0:      # link-like: mostly valid idle words, occasional garbage / invalid gaps
                v = int(rng.random() < 0.85)
                if rng.random() < 0.75: d, c = 0, 0
                else: d, c = rng.getrandbits(32), rng.choice([0, 0, rng.randrange(16)])
            elif style == 1:    # zero data but not valid (the defect pattern), and single-bit words
                v = int(rng.random() < 0.4)
                d = rng.choice([0, 0, 0, 1 << rng.randrange(32)]); c = rng.choice([0, 0, 0, 1 << rng.randrange(4)])
            elif style == 2:    # completely random
                v = rng.getrandbits(1); d = rng.getrandbits(32); c = rng.randrange(16)
            else:               # all idle, enable toggling
                v, d, c = 1, 0, 0
            tr.append({"enable": en, "valid": v, "data": d, "ctrl": c})
        out.append(tr)
    return out


def timer_traces(target, rng, tier):
    tk, tr_ = target.params["tk"], target.params["tr"]
    if target.big:
        # few long traces: silent stretches longer than Tr, sparse events
        n = 1 if tr_ > 50000 else (2 if tier == "quick" else 4)
        out = []
        for k in range(n):
            L = int(tr_ * rng.choice([2.2, 2.6])) + rng.randint(0, 50)
            pe = rng.choice([0.3 / tr_, 2.0 / tr_]); pt = rng.choice([0.5 / tk, 2.0 / tk])
            tr = []
            for c in range(L):
                tr.append({"enable": int(rng.random() > 0.1 / tr_), "link_command_received": int(rng.random() < pe),
                           "packet_received": int(rng.random() < pe / 2), "link_command_transmitted": int(rng.random() < pt)})
            out.append(tr)
        return out
    n = 12 if tier == "quick" else 40
    out = []
    for k in range(n):
        L = rng.choice([tk, tk + 1, 3 * tk, tr_ - 1, tr_, tr_ + 1, 2 * tr_ + 3, 3 * tr_])
        pe = rng.choice([0.0, 0.5 / tr_, 2.0 / tr_, 0.3]); pt = rng.choice([0.0, 0.5 / tk, 0.5])
        pen = rng.choice([0.0, 0.0, 1.0 / tr_, 0.2])
        tr = []
        for c in range(L):
            tr.append({"enable": int(rng.random() >= pen), "link_command_received": int(rng.random() < pe),
                       "packet_received": int(rng.random() < pe / 2), "link_command_transmitted": int(rng.random() < pt)})
        out.append(tr)
    return out


def traces(target, rng, tier):
    return idle_traces(target, rng, tier) if target.kind == "idle" else timer_traces(target, rng, tier)


# ---------------------------------------------------------------------------------------------
def tm_args(t):
    tk, tr = t.params["tk"], t.params["tr"]
    return f"{tk} {tr} (LinkTimers.range_width {tk}) (LinkTimers.range_width {tr})"


def obligations(targets, tier):
    obs = []
    for t in targets:
        if t.kind == "idle":
            n = t.params["n"]
            obs.append(tie.rmon(
                f"ob_{t.name}", t,
                mon=f"rl_mon IdleHs.ih_state (IdleHs.ih_step {n}) IdleHs.ih_enc IdleHs.ih_dec (fun _ _ => true)",
                m0="IdleHs.ih_enc IdleHs.ih_init", alpha_bits=38, alphabet="IdleHs.ih_alpha", fuel=100000,
                describe=f"IdleHandshakeHandler(RX_CYCLES_REQUIRED={n}) == model (valid-aware idle words) in lock step, "
                         f"every trace over the 160 representative input words"))
            obs.append(tie.corr(f"corr_{t.name}", t, mstep=f"IdleHs.ih_step {n}", m0="IdleHs.ih_init",
                                describe=f"idle handshake model vs simulator, full-width random words, n={n}"))
        else:
            a = tm_args(t); wk = f"(LinkTimers.range_width {t.params['tk']})"
            if t.big:
                obs.append(tie.corr(f"corr_{t.name}", t, mstep=f"LinkTimers.tm_step {a}", m0="LinkTimers.tm_init",
                                    describe=f"timers model vs simulator at f = {t.params['f']} Hz "
                                             f"(Tk = {t.params['tk']}, Tr = {t.params['tr']} cycles), traces longer than 2 Tr"))
                continue
            obs.append(tie.rlock(
                f"ob_{t.name}", t,
                St="LinkTimers.tm_state", mstep=f"LinkTimers.tm_step {a}",
                enc=f"LinkTimers.tm_enc {wk}", dec=f"LinkTimers.tm_dec {wk}", wf=f"LinkTimers.tm_wf {wk}",
                dec_enc=f"LinkTimers_proofs.tm_dec_enc {wk}", wf_step=f"LinkTimers_proofs.tm_wf_step {a}",
                m0="LinkTimers.tm_init", wf_m0=f"apply LinkTimers_proofs.tm_wf_init.",
                alpha_bits=4, fuel=1000000,
                describe=f"LinkMaintenanceTimers(f = {t.params['f']} Hz) == model with Tk = {t.params['tk']}, Tr = {t.params['tr']} "
                         f"cycles, all input traces"))
    return obs


def tie_theorems(targets, tier):
    s = ""
    for t in targets:
        G = t.modname
        if t.kind == "idle":
            n = t.params["n"]
            s += f"""
Theorem C44_{t.name}_meets_spec : forall tr, Forall (fun i => In i IdleHs.ih_alpha) tr ->
  run {G}.step {G}.init tr = IdleHs.spec_trace {n} [] tr.
Proof.
  intros tr H.
  rewrite (R_lockstep {G}.step IdleHs.ih_state (IdleHs.ih_step {n}) IdleHs.ih_enc IdleHs.ih_dec IdleHs.ih_wf
             (fun _ _ => true) IdleHs_proofs.ih_dec_enc (IdleHs_proofs.ih_wf_step {n} ltac:(lia)) IdleHs.ih_alpha
             ob_{t.name}_T.L {G}.init IdleHs.ih_init ob_{t.name}_T.L_closed ob_{t.name}_T.init_in
             IdleHs_proofs.ih_wf_init tr H (env_ok_true _ _ _ _)).
  apply IdleHs_proofs.ih_from_reset.
Qed.
"""
        elif not t.big:
            a = tm_args(t)
            s += f"""
Theorem C44_{t.name}_meets_spec : forall tr, Forall (fun i => i < 2 ^ N.of_nat 4) tr ->
  run {G}.step {G}.init tr = LinkTimers.spec_trace {a} [] tr.
Proof.
  intros tr H. rewrite (ob_{t.name}_T.tie tr H (env_ok_true _ _ _ _)).
  apply LinkTimers_proofs.tm_from_reset.
Qed.
"""
    return s


def tie_theorem_names(targets, tier):
    return [f"C44_{t.name}_meets_spec" for t in targets if t.kind == "idle" or not t.big]


LEVEL_TEXT = ("Machine-checked proof about models, tied to the code. Idle handshake: for every RX_CYCLES_REQUIRED n and every input "
              "history the model equals the history specification (C44_idle_model_spec), which reports completion iff enable was "
              "high for the n preceding cycles (16 symbols sent for n = 4) and, within this enable run, two adjacent VALID "
              "all-idle words (8 consecutive valid logical-idle symbols) were received (C44_idle_complete_iff). U0 timers: for all "
              "timeouts/widths and histories the model equals the specification (C44_timers_model_spec); until a register wraps, "
              "schedule_keepalive / transition_to_recovery are high exactly in the cycle T cycles after the last sent / received "
              "link command or header packet (or U0 entry), never earlier (C44_keepalive_exact, C44_recovery_exact). "
              "Tie: netlist regenerated from /repo proved equal to the specification -- timers: on ALL input traces at 1 (quick) / 5 "
              "(thorough) scaled clock frequencies, with Tk, Tr recomputed exactly from f; idle: on all traces over 160 "
              "representative words for n = 4 (+1, 2, 3, 7 thorough); correspondence (not a proof) on random full-width words and at "
              "2.5 / 12.5 / 125 MHz.")
LEVEL_NOTE = ("Until the candidate patch is applied the tree VIOLATES the idle-handshake half: IdleHandshakeHandler ignores sink.valid (and counts the all-zero "
              "reset value of its capture register as a received idle word), so the handshake completes without a single valid "
              "symbol having been received (findings/C44-idle-valid.json, candidate patch findings/C44-idle-valid.diff); the "
              "check exits 1 without the patch and 0 with it. The timers half holds on the unchanged tree. "
              "Idle R tie over a finite representative alphabet, not all 2^38 words. Timer theorems about exact cycles hold "
              "until the Signal(range(T)) register wraps (2^w cycles of silence). "
              "Trusted: Coq kernel + vm_compute, Amaranth elaboration, nir2coq.py/Netlist.v (validated each run against pysim).")
TECHNIQUE = ("Rocq proof: history-indexed specifications + invariant induction (parametric in n / Tk, Tr, widths); certified "
             "product-reachability against the regenerated netlist (all inputs for the timers, representative alphabet for the "
             "idle handler); simulator correspondence at realistic clock frequencies")
