"""C53 -- HyperRAM transactions (luna/gateware/interface/psram.py: HyperRAMInterface, the interface FSM)."""
from harness.core import Target
from harness import tie

PID = "C53"
ASSUMPTIONS = [
    "scope: HyperRAMInterface only (driven through a HyperBusPHY record as in tests/test_psram.py); the PHY wrappers "
    "with vendor Instances, DDR (de)serialisation, clock forwarding and output-enable synchronisers are not modelled",
    "one list element = one sync cycle = one HyperBus clock (2:1 PHY): dq[15:8]/rwds[1] first half, dq[7:0]/rwds[0] second half",
    "the model is parametric in the latency count L loaded into latency_clocks_remaining (HIGH_LATENCY_CLOCKS-2) and the "
    "counter width; address/DQ/RWDS widths are fixed by the code (32/16/2) and are the real ones in every target",
    "R obligations (certified product reachability) quantify over all traces whose input words come from an explicit "
    "alphabet (all control bits and RWDS values free; address/write_data/dq_i from a few fixed bit patterns) -- see "
    "obligation_list; the other data values are covered by correspondence runs with uniformly random 32/16-bit data",
    "targets named *_lat<k> are subclasses of HyperRAMInterface that only override the class constants "
    "HIGH_LATENCY_CLOCKS/LOW_LATENCY_CLOCKS (same elaborate()); target 'hyperram' is the unmodified class (L = 12)",
    "hr_norm: the value of the dq.o register is a don't-care while dq.e = 0 (the specification compares it only when driven)",
    "the specification does not require a CS#-high gap between a register write and a request accepted in the very "
    "next cycle (the code keeps cs = 1 across the two; memory-space and read transactions always deselect for >= 1 cycle)",
]
TIE_IMPORTS = "From LunaModel Require Import HyperRam HyperRam_proofs.\n"

A1 = 0xA5B6C7D5          # address pattern with distinct, non-zero CA fields
W1 = 0xBEEF
D1 = 0xCA5E


def mk(high=None):
    def build():
        from luna.gateware.interface.psram import HyperBusPHY, HyperRAMInterface
        cls = HyperRAMInterface
        if high is not None:
            cls = type("HyperRAMInterfaceLat", (HyperRAMInterface,),
                       dict(HIGH_LATENCY_CLOCKS=high, LOW_LATENCY_CLOCKS=2))
        phy = HyperBusPHY()
        d = cls(phy=phy)
        ins = [("address", d.address), ("register_space", d.register_space), ("perform_write", d.perform_write),
               ("single_page", d.single_page), ("start_transfer", d.start_transfer), ("final_word", d.final_word),
               ("write_data", d.write_data), ("dq_i", phy.dq.i), ("rwds_i", phy.rwds.i)]
        outs = [("clk_en", phy.clk_en), ("dq_o", phy.dq.o), ("dq_e", phy.dq.e), ("rwds_o", phy.rwds.o),
                ("rwds_e", phy.rwds.e), ("cs", phy.cs), ("reset", phy.reset), ("idle", d.idle),
                ("read_ready", d.read_ready), ("write_ready", d.write_ready), ("read_data", d.read_data)]
        return d, ins, outs
    t = Target("hyperram" if high is None else f"hyperram_lat{high}", build)
    H = 14 if high is None else high
    t.params = dict(high=H, L=H - 2, lw=H.bit_length())      # Signal(range(0, H+1)) has bit_length(H) bits
    return t


def targets(tier):
    ts = [mk(None), mk(3)]
    if tier != "quick":
        ts += [mk(2), mk(5), mk(8)]
    return ts


# ---------------------------------------------------------------------------------------------------
def zero():
    return dict(address=0, register_space=0, perform_write=0, single_page=0, start_transfer=0, final_word=0,
                write_data=0, dq_i=0, rwds_i=0)


def transaction(rng, L, noisy):
    """One request plus a plausible memory response; `noisy` randomises every don't-care input."""
    reg, wr, single = rng.random() < 0.4, rng.random() < 0.5, rng.random() < 0.5
    addr = rng.choice([rng.getrandbits(32), rng.getrandbits(32), 1 << rng.randrange(32), 0xFFFFFFFF, 0])
    cyc = []

    def c(**kw):
        x = zero()
        if noisy:
            x.update(address=rng.getrandbits(32), register_space=rng.getrandbits(1), perform_write=rng.getrandbits(1),
                     single_page=rng.getrandbits(1), write_data=rng.getrandbits(16), dq_i=rng.getrandbits(16),
                     rwds_i=rng.getrandbits(2), final_word=int(rng.random() < 0.3))
        x.update(kw); cyc.append(x)
    for _ in range(rng.randrange(0, 4)):
        c(start_transfer=0)
    hold = rng.randint(1, 8)                        # start_transfer is a 1..8 cycle strobe
    req = dict(address=addr, register_space=int(reg), perform_write=int(wr), single_page=int(single))
    c(start_transfer=1, **req)
    body = 5 + (0 if (reg and wr) else L + 1)
    lat_rwds = rng.getrandbits(1)
    for k in range(body):
        kw = dict(start_transfer=int(k + 1 < hold))
        if not noisy:
            kw.update(req if k + 1 < hold else {}, rwds_i=lat_rwds if k < 6 else 0)
        if reg and wr and k == body - 1:
            kw.update(write_data=rng.getrandbits(16))
        c(**kw)
    if reg and wr:
        pass
    elif wr:
        n = rng.randint(1, 6)
        for k in range(n):
            c(write_data=rng.getrandbits(16), final_word=int(k == n - 1), start_transfer=0)
    else:
        n = 1 if reg else rng.randint(1, 6)
        shifted = rng.random() < 0.4
        k = 0; guard = 0
        while k < n and guard < 40:
            guard += 1
            r = rng.random()
            if r < 0.25:                            # memory pauses (RWDS low)
                c(rwds_i=0, dq_i=rng.getrandbits(16), final_word=int(rng.random() < 0.5), start_transfer=0)
            elif shifted:                           # word split over two cycles: ..x1 then 0x..
                c(rwds_i=1, dq_i=rng.getrandbits(16), final_word=0, start_transfer=0)
                c(rwds_i=rng.choice([0, 1]), dq_i=rng.getrandbits(16), final_word=int(k == n - 1), start_transfer=0)
                k += 1
            else:
                c(rwds_i=2, dq_i=rng.getrandbits(16), final_word=int(k == n - 1), start_transfer=0)
                k += 1
        if guard >= 40:
            c(rwds_i=2, final_word=1)
    for _ in range(rng.randrange(1, 4)):
        c(start_transfer=int(rng.random() < 0.2), **(req if rng.random() < 0.5 else {}))
    return cyc


def traces(target, rng, tier):
    L = target.params["L"]
    n = 16 if tier == "quick" else 150
    out = []
    for k in range(n):
        tr = []
        for _ in range(rng.randint(1, 5)):
            tr += transaction(rng, L, noisy=(k % 3 == 1))
        out.append(tr)
    for k in range(6 if tier == "quick" else 40):      # adversarial: everything random
        p = rng.choice([0.1, 0.5, 0.9])
        out.append([dict(address=rng.getrandbits(32), register_space=rng.getrandbits(1), perform_write=rng.getrandbits(1),
                         single_page=rng.getrandbits(1), start_transfer=int(rng.random() < p),
                         final_word=int(rng.random() < 0.3), write_data=rng.getrandbits(16), dq_i=rng.getrandbits(16),
                         rwds_i=rng.getrandbits(2)) for _ in range(rng.randint(10, 120))])
    return out


# ---------------------------------------------------------------------------------------------------
def nl(xs):
    return "[" + "; ".join(str(x) for x in xs) + "]"


D2 = 0x35A1


def alphabets(t, tier):
    """(tag, Coq alphabet, description) per target."""
    ctrl = ("ctrl", "hr_alphabet [0] both both both both both [0] [0] [0;1;2;3]",
            "all 5 control bits and all RWDS values free; address/write_data/dq_i = 0")
    data = ("data", f"hr_alphabet [{A1}] both both [false] both both [{W1}] [{D1}; {D2}] [0;1;2;3]",
            f"start/register_space/perform_write/final_word and all RWDS values free, single_page = 0; address = 0x{A1:X}, "
            f"write_data = 0x{W1:X}, dq_i in {{0x{D1:X}, 0x{D2:X}}}")
    data2 = ("data2", f"hr_alphabet [0; {A1}] both both [false] both both [0; {W1}] [0; {D1}] [0;1;2;3]",
             f"start/register_space/perform_write/final_word and all RWDS values free, single_page = 0; address in "
             f"{{0, 0x{A1:X}}}, write_data in {{0, 0x{W1:X}}}, dq_i in {{0, 0x{D1:X}}}")
    addr = ("addr", f"hr_alphabet (0 :: {0xFFFFFFFF} :: one_hot32) [false] [false] [false] both [true] [0] [0] [0; 2]",
            "memory-space linear reads: start free, address in {0, all-ones, the 32 one-hot values}, RWDS in {00, 10}")
    addr2 = ("addr2", f"hr_alphabet (0 :: {0xFFFFFFFF} :: one_hot32) both [false] [false] both [true] [0] [0] [0; 2]",
             "linear reads: start/register_space free, address in {0, all-ones, the 32 one-hot values}, RWDS in {00, 10}")
    high = t.params["high"]
    if tier == "quick":
        return [ctrl] if high == 14 else [data, addr]
    if high == 14:
        return [ctrl, data]
    if high == 3:
        return [ctrl, data, data2, addr2]
    return [data]


def model(t):
    return f"hr_step {t.params['L']} {t.params['lw']}"


def obligations(targets, tier):
    obs = []
    for t in targets:
        L = t.params["L"]
        for tag, alpha, desc in alphabets(t, tier):
            obs.append(tie.rmon(
                f"ob_{t.name}_{tag}", t,
                mon=f"rl_mon hr_state ({model(t)}) hr_enc hr_dec (fun _ _ => true)", m0="hr_enc hr_init",
                alphabet=alpha, alpha_bits=None, fuel=100000,
                describe=f"HyperRAMInterface(HIGH_LATENCY_CLOCKS={t.params['high']}) == FSM model in lock step (every "
                         f"output port, every cycle) on all input traces over the alphabet: {desc}"))
        obs.append(tie.corr(f"corr_spec_{t.name}", t, mstep=f"hb_step {L}", m0="hb_init", norm="hr_norm",
                            describe=f"HyperBus transaction specification hb_step vs simulator (dq.o masked while dq.e = 0), latency {L}"))
    return obs


def tie_theorems(targets, tier):
    s = ""
    for t in targets:
        L, lw = t.params["L"], t.params["lw"]
        for tag, alpha, desc in alphabets(t, tier):
            ob = f"ob_{t.name}_{tag}"
            s += f"""
Theorem C53_{t.name}_{tag}_model : forall tr, Forall (fun i => In i {ob}.alpha) tr ->
  run {t.modname}.step {t.modname}.init tr = run ({model(t)}) hr_init tr.
Proof.
  intros tr H.
  apply (R_lockstep {t.modname}.step hr_state ({model(t)}) hr_enc hr_dec hr_wf (fun _ _ => true)
           hr_dec_enc (hr_wf_step {L} {lw}) {ob}.alpha {ob}_T.L).
  - exact {ob}_T.L_closed.
  - exact {ob}_T.init_in.
  - exact hr_wf_init.
  - exact H.
  - apply env_ok_true.
Qed.

Theorem C53_{t.name}_{tag} : forall tr, Forall (fun i => In i {ob}.alpha) tr ->
  map hr_norm (run {t.modname}.step {t.modname}.init tr) = run (hb_step {L}) hb_init tr.
Proof.
  intros tr H. rewrite (C53_{t.name}_{tag}_model tr H). apply hyperram_refines. reflexivity.
Qed.
"""
    return s


def tie_theorem_names(targets, tier):
    out = []
    for t in targets:
        for tag, _, _ in alphabets(t, tier):
            out += [f"C53_{t.name}_{tag}_model", f"C53_{t.name}_{tag}"]
    return out


LEVEL_TEXT = (
    "Machine-checked proof. (1) C53_hyperram_refines: for every latency count L < 2^lw and every input trace (all addresses, "
    "operation types, final-word timings, RWDS/DQ behaviours, start strobes at any time), the code-shaped FSM model of "
    "HyperRAMInterface produces exactly the outputs of the HyperBus transaction specification hb_step (phases Idle / Command k / "
    "Latency n / Read / Write / Recover; bus cycles Deselect / Setup / Listen / Drive w / DriveMasked w), the dq.o register being "
    "compared only while dq.e = 1. (2) About the specification, for all states and inputs: C53_command_phase (a request accepted "
    "when idle is followed by two Setup cycles and CA[47:32], CA[31:16], CA[15:0] of the HyperBus command-address word, then the "
    "write phase for a register write or the latency count otherwise), C53_ca_words (closed form of the three words in terms of "
    "read/register/linear flags and address bits), C53_latency_phase (exactly L+1 released cycles, then the data phase named by the "
    "command), C53_bus_released (DQ is driven only out of CA/write phases, RWDS only out of memory-space write phases, CS deasserted "
    "only when idle without request or recovering), C53_data_phase_matches_command. (3) Tie: for each target and input alphabet in "
    "obligation_list, the netlist regenerated from /repo is proved equal to the model in lock step on all traces over that alphabet "
    "(certified product reachability), hence normalised netlist output = specification (corollaries C53_<target>_<alphabet>); "
    "the model and the specification are additionally compared with Amaranth's simulator on random full-width data.")
LEVEL_NOTE = (
    "Trusted: Coq kernel + vm_compute, Amaranth elaboration, nir2coq.py/Netlist.v (validated every run against pysim), hb_step as the "
    "reading of the property (CA layout per the HyperBus command-address table; latency = the constant the code loads: "
    "HIGH_LATENCY_CLOCKS-2 = 12, i.e. 13 released cycles between CA[15:0] and the first data cycle -- conformance of that number to a "
    "particular memory's configured latency is not claimed). The netlist tie is a theorem only for input words from the listed "
    "alphabets (control and RWDS fully free; address/data from fixed patterns incl. all one-hot addresses for reads); arbitrary "
    "data values rest on the parametric model proof plus correspondence runs. PHY wrappers are out of scope.")
TECHNIQUE = ("Rocq proof: abstraction function + invariant (model refines a HyperBus transaction specification, all traces, all L) "
             "+ certified product-reachability lock-step against the netlist regenerated from source over explicit input alphabets "
             "+ differential runs against Amaranth's simulator")
