"""C29 -- multibyte IN endpoint serialisation (luna/gateware/usb/usb2/endpoints/stream.py:
USBMultibyteStreamInEndpoint -- the shift-register FSM in front of the inner byte-wide USBStreamInEndpoint)."""
from harness.core import Target
from harness import tie
from harness.tie import Obligation

PID = "C29"
TIE_IMPORTS = "From LunaModel Require Import MultiIn MultiIn_proofs.\n"

ASSUMPTIONS = [
    "observation point: the stream into the inner USBStreamInEndpoint (valid/first/last/payload out, ready in) and the word "
    "stream's ready. USBMultibyteStreamInEndpoint.elaborate() creates the inner endpoint itself, so the targets run the unchanged "
    "elaborate() of /repo with the name USBStreamInEndpoint bound to a stub that only provides `.stream`/`.interface` "
    "(substituted in the harness process for the duration of elaborate(); /repo is not touched): byte.ready becomes a free input, "
    "i.e. every ready pattern an inner endpoint could produce is covered. The inner endpoint itself is not part of C29",
    "byte.first / byte.last are only driven in cycles in which byte.ready is high (the code assigns them inside `If(byte_stream.ready)`); "
    "the specification says exactly that: the flags accompany the byte in the cycle it is taken",
    "while byte.valid = 0 the payload lines keep showing the low byte of the shift register (a don't-care); the specification machine "
    "carries that value only so that model and specification outputs can be compared for equality",
    "R-tie (quick): byte widths 1..4 over an explicit input alphabet: all valid/first/last/ready combinations x payloads whose byte "
    "lanes are each 0x00, 0xFF or 0xA5 (byte width 4: 0x00 or 0xFF), plus the word with lanes 0x11,0x22,.. and its complement; thorough adds, for byte widths 1..3, "
    "walking-one / walking-zero payloads over every payload bit (an exhaustive sweep of all 2^12 input words at byte width 1 was "
    "run once during development and passed, but takes ~20 min and is not part of the tiers). Full-range payloads at byte widths 1..4 (thorough: also 5, 8) by simulator correspondence",
    "additionally the complete endpoint with the REAL inner USBStreamInEndpoint (max_packet_size 8; byte width 4, thorough: 1..4) is "
    "simulated under random host activity and the model, fed the observed inner ready, must reproduce word.ready and the inner byte "
    "stream cycle by cycle (runtime oracle, not a proof)",
]


def _stub_build(bw):
    def build():
        import luna.gateware.usb.usb2.endpoints.stream as S
        from amaranth import Elaboratable, Module
        from luna.gateware.stream import StreamInterface
        created = []

        class StubByteEndpoint(Elaboratable):
            """Stands in for USBStreamInEndpoint: only the attributes USBMultibyteStreamInEndpoint touches."""
            def __init__(self, *, endpoint_number, max_packet_size):
                self.stream = StreamInterface(); self.interface = None
                created.append(self)
            def elaborate(self, platform):
                return Module()

        dut = S.USBMultibyteStreamInEndpoint(byte_width=bw, endpoint_number=1, max_packet_size=64)
        orig = S.USBStreamInEndpoint
        S.USBStreamInEndpoint = StubByteEndpoint
        try:
            m = dut.elaborate(None)          # the unchanged elaborate() of /repo
        finally:
            S.USBStreamInEndpoint = orig
        byte = created[0].stream
        ins = [("w_valid", dut.stream.valid), ("w_first", dut.stream.first), ("w_last", dut.stream.last),
               ("w_payload", dut.stream.payload), ("b_ready", byte.ready)]
        outs = [("w_ready", dut.stream.ready), ("b_valid", byte.valid), ("b_first", byte.first), ("b_last", byte.last),
                ("b_payload", byte.payload)]
        return m, ins, outs
    return build


def _real_build(bw):
    """The complete USBMultibyteStreamInEndpoint with the real inner USBStreamInEndpoint (max_packet_size 8); the inner
    endpoint instance is recorded (by a trivial subclass) only to get hold of its `.stream` signals for observation."""
    def build():
        import luna.gateware.usb.usb2.endpoints.stream as S
        created = []

        class Recorded(S.USBStreamInEndpoint):
            def __init__(self, **kw):
                super().__init__(**kw); created.append(self)

        dut = S.USBMultibyteStreamInEndpoint(byte_width=bw, endpoint_number=1, max_packet_size=8)
        orig = S.USBStreamInEndpoint
        S.USBStreamInEndpoint = Recorded
        try:
            m = dut.elaborate(None)
        finally:
            S.USBStreamInEndpoint = orig
        byte = created[0].stream; itf = dut.interface
        ins = [("w_valid", dut.stream.valid), ("w_first", dut.stream.first), ("w_last", dut.stream.last),
               ("w_payload", dut.stream.payload),
               ("tok_new", itf.tokenizer.new_token), ("tok_in", itf.tokenizer.is_in), ("tok_rfr", itf.tokenizer.ready_for_response),
               ("tok_ep", itf.tokenizer.endpoint), ("hs_ack", itf.handshakes_in.ack), ("tx_ready", itf.tx.ready)]
        outs = [("w_ready", dut.stream.ready), ("b_valid", byte.valid), ("b_first", byte.first), ("b_last", byte.last),
                ("b_payload", byte.payload), ("b_ready", byte.ready)]
        return m, ins, outs
    return build


def mk(bw, mode):
    """mode: 'alpha' / 'walk' (R tie over an explicit alphabet; walk = larger payload set), 'corr', 'real'."""
    if mode == "real":
        t = Target(f"multi_in_real_bw{bw}", _real_build(bw))
        t.params = dict(bw=bw, mode=mode)
        return t
    t = Target(f"multi_in_bw{bw}" + ("_walk" if mode == "walk" else ""), _stub_build(bw))
    t.params = dict(bw=bw, mode=mode)
    t.in_bits = 3 + 8 * bw + 1
    return t


def targets(tier):
    ts = [mk(bw, "alpha") for bw in (1, 2, 3, 4)] + [mk(4, "real")]
    if tier != "quick":
        ts += [mk(1, "walk"), mk(2, "walk"), mk(3, "walk"), mk(5, "corr"), mk(8, "corr"), mk(1, "real"), mk(2, "real"), mk(3, "real")]
    return ts


def _payload_set(bw, walk=False):
    if walk:
        full = (1 << (8 * bw)) - 1
        return sorted(set(_payload_set(bw)) | {1 << k for k in range(8 * bw)} | {full ^ (1 << k) for k in range(8 * bw)})
    import itertools
    vals = (0x00, 0xFF, 0xA5) if 3 ** bw <= 30 else (0x00, 0xFF)
    lanes = [sum(v << (8 * j) for j, v in enumerate(combo)) for combo in itertools.product(vals, repeat=bw)]
    w = sum((0x11 * (j + 1)) << (8 * j) for j in range(bw))
    lanes += [w, w ^ ((1 << (8 * bw)) - 1)]
    return sorted(set(lanes))


def _alphabet(bw, walk=False):
    out = []
    for p in _payload_set(bw, walk):
        for ctrl in range(16):
            v, f, l, r = ctrl & 1, (ctrl >> 1) & 1, (ctrl >> 2) & 1, (ctrl >> 3) & 1
            out.append(v | (f << 1) | (l << 2) | (p << 3) | (r << (3 + 8 * bw)))
    return out


def traces(target, rng, tier):
    bw = target.params["bw"]
    ntr = 24 if tier == "quick" else 100
    out = []
    pset = _payload_set(bw)
    if target.params["mode"] == "real":
        # host-side activity (IN tokens for this / another endpoint, ACKs, UTMI tx_ready stalls) only serves to make the
        # real inner endpoint produce varied ready patterns; word side as for the other targets
        for t in range(ntr):
            p_valid = rng.choice([0.3, 0.9, 1.0]); p_tok = rng.choice([0.02, 0.1, 0.3]); p_tx = rng.choice([0.3, 0.8, 1.0])
            tr = []
            for c in range(rng.choice([20, 80, 200])):
                tr.append(dict(w_valid=int(rng.random() < p_valid), w_first=rng.getrandbits(1), w_last=int(rng.random() < 0.2),
                               w_payload=rng.getrandbits(8 * bw),
                               tok_new=int(rng.random() < p_tok), tok_in=int(rng.random() < 0.9), tok_rfr=int(rng.random() < p_tok),
                               tok_ep=rng.choice([1, 1, 1, 2]), hs_ack=int(rng.random() < p_tok), tx_ready=int(rng.random() < p_tx)))
            out.append(tr)
        return out
    for t in range(ntr):
        p_valid = rng.choice([0.1, 0.5, 0.9, 1.0]); p_ready = rng.choice([0.0, 0.2, 0.6, 1.0])
        in_alpha = (t % 3 == 2)
        tr = []
        for c in range(rng.choice([1, 3, 20, 60, 120])):
            tr.append(dict(w_valid=int(rng.random() < p_valid), w_first=rng.getrandbits(1), w_last=rng.getrandbits(1),
                           w_payload=rng.choice(pset) if in_alpha else rng.getrandbits(8 * bw),
                           b_ready=int(rng.random() < p_ready)))
        out.append(tr)
    return out


def rlock_alpha(name, target, *, St, mstep, enc, dec, wf, dec_enc, wf_step, m0, wf_m0, alphabet, fuel=100000, describe=""):
    """tie.rlock over an explicit alphabet (a Coq list N) instead of all 2^k input words; same certified closure
    (Machine.R_lockstep is generic in the alphabet).  The theorem covers all traces, of any length, over that alphabet."""
    G = target.modname; env = "(fun _ _ => true)"
    defs = f"""
Module {name}.
  Definition step := {G}.step.
  Definition mon := rl_mon ({St}) ({mstep}) ({enc}) ({dec}) ({env}).
  Definition alpha : list N := {alphabet}.
  Definition m0 := ({enc}) ({m0}).
  Definition bfs := Eval vm_compute in explore step mon alpha {fuel} {G}.init m0.
  Definition ob_cex := Eval vm_compute in cex bfs.
  Definition ob_left := Eval vm_compute in length (front bfs).
  Definition ob_states := Eval vm_compute in length (allst bfs).
End {name}.
"""
    thms = f"""
Module {name}_T.
  Import {name}.
  Definition L := Eval vm_compute in allst bfs.
  Lemma L_closed : closed step mon alpha L = true.
  Proof. vm_compute. reflexivity. Qed.
  Lemma init_in : pmem {G}.init m0 (of_list L) = true.
  Proof. vm_compute. reflexivity. Qed.
  Theorem tie : forall tr, Forall (fun i => In i alpha) tr ->
    run {G}.step {G}.init tr = run ({mstep}) ({m0}) tr.
  Proof.
    intros tr H.
    apply (R_lockstep step ({St}) ({mstep}) ({enc}) ({dec}) ({wf}) ({env}) ({dec_enc}) ({wf_step}) alpha L).
    - exact L_closed.
    - exact init_in.
    - {wf_m0}
    - exact H.
    - apply env_ok_true.
  Qed.
End {name}_T.
"""
    return Obligation(name, "R-lockstep(alphabet)", target, defs, thms, [f"{name}_T.tie"], describe,
                      mon_expr=f"{name}.mon", m0_expr=f"{name}.m0")


def obligations(targets, tier):
    obs = []
    for t in targets:
        bw = t.params["bw"]; mode = t.params["mode"]
        common = dict(St="mi_state", mstep=f"mi_step {bw}%nat", enc=f"mi_enc {bw}%nat", dec=f"mi_dec {bw}%nat",
                      wf=f"mi_wf {bw}%nat", dec_enc=f"mi_dec_enc {bw}%nat", wf_step=f"mi_wf_step {bw}%nat",
                      m0="mi_init", wf_m0=f"apply mi_wf_init.")
        if mode == "real":
            K = 3 + 8 * bw
            mon = (f"(fun m i o => let i' := bits i 0 {K} + N.shiftl (bits o 12 1) {K} in "
                   f"let (m', o') := mstepN mi_state (mi_step {bw}%nat) (mi_enc {bw}%nat) (mi_dec {bw}%nat) m i' in "
                   f"Some (m', N.eqb (bits o 0 12) o'))")
            obs.append(tie.cmon(f"mon_{t.name}", t, mon=mon, m0=f"(mi_enc {bw}%nat mi_init)",
                                describe=f"byte_width={bw}: complete USBMultibyteStreamInEndpoint with the real inner endpoint; the model, fed the "
                                         f"observed inner ready, must reproduce word.ready and the inner byte stream in every cycle (runtime oracle)"))
            continue
        if mode in ("alpha", "walk"):
            al = _alphabet(bw, mode == "walk")
            obs.append(rlock_alpha(f"ob_{t.name}", t, alphabet="[" + "; ".join(str(x) for x in al) + "]", **common,
                                   describe=f"byte_width={bw}: netlist == serialiser model on all histories over {len(al)} input words "
                                            f"(all control combinations x {len(al) // 16} payloads"
                                            f"{', incl. walking one / walking zero over every payload bit' if mode == 'walk' else ''})"))
        else:
            obs.append(tie.corr(f"corr_{t.name}", t, mstep=f"mi_step {bw}%nat", m0="mi_init",
                                describe=f"byte_width={bw}: serialiser model vs simulator, random full-range payloads"))
    return obs


def tie_theorems(targets, tier):
    s = ""
    for t in targets:
        bw = t.params["bw"]; mode = t.params["mode"]
        if mode in ("alpha", "walk"):
            s += f"""
Theorem C29_{t.name} : forall tr, Forall (fun i => In i ob_{t.name}.alpha) tr ->
  run {t.modname}.step {t.modname}.init tr = run (ms_step {bw}%nat) ms_init tr.
Proof. intros tr H. rewrite (ob_{t.name}_T.tie tr H). apply mi_from_reset. lia. Qed.
"""
    return s


def tie_theorem_names(targets, tier):
    return [f"C29_{t.name}" for t in targets if t.params["mode"] in ("alpha", "walk")]


LEVEL_TEXT = ("Machine-checked proof. (1) For every byte width bw >= 1 and every history of word values, first/last flags, valid gaps "
              "and byte-endpoint ready patterns (any length), the code-shaped model of the serialiser FSM equals the specification "
              "machine 'queue of the current word's remaining bytes' cycle by cycle (C29_serialiser_refines). (2) On the specification: "
              "bytes taken by the inner endpoint ++ bytes pending = concatenation of the little-endian serialisations (with first on "
              "byte 0 and last on byte bw-1) of the words accepted, and at most one word is ever pending "
              "(C29_bytes_are_serialised_words, C29_little_endian, C29_flags). (3) For byte widths 1..4 the netlist regenerated from "
              "/repo (unchanged elaborate(), inner endpoint stubbed so that its ready is a free input) equals the model on all "
              "histories over an explicit input alphabet (certified product reachability; thorough: larger alphabets with walking bits); "
              "giving C29_<cfg>: netlist run = specification run.")
LEVEL_NOTE = ("Trusted: Coq kernel + vm_compute, Amaranth elaboration, nir2coq.py/Netlist.v (validated each run against pysim), and the "
              "stub substitution for the inner USBStreamInEndpoint (harness-side, /repo untouched). The netlist theorems for bw = 2..4 "
              "quantify over histories whose payload byte lanes are 0x00/0xFF/0xA5 patterns (bw = 4: 0x00/0xFF) or the 0x11,0x22,.. word and its complement "
              "(all control-signal combinations); arbitrary payloads are covered by the parametric model theorem plus simulator "
              "correspondence, not by a netlist proof (the 8-bit byte lanes cannot be shrunk in this module). "
              "The inner endpoint's own behaviour (packetisation, ZLPs) is not part of C29.")
TECHNIQUE = ("Rocq proof: simulation relation between the code-shaped shift-register FSM and a byte-queue specification machine, "
             "conservation theorem on the specification; certified product-reachability (lock-step, explicit alphabet) against the "
             "regenerated netlist; simulator correspondence with random payloads")
