"""C18 -- TransactionalizedFIFO behaves as a commit/rollback queue (luna/gateware/memory.py)."""
from harness.core import Target
from harness import tie

PID = "C18"
ASSUMPTIONS = [
    "no environment assumption: every obligation quantifies over ALL input words in every cycle (read/write enables, "
    "commits and discards in any combination, including commit and discard of the same port together and requests while "
    "full/empty)",
    "same-cycle conventions of the specification (Model/TxFifo.v): full/empty gate a request with their value at the start of "
    "the cycle; a commit covers requests of earlier cycles only; a discard without commit also cancels a request made in the "
    "same cycle; commit together with discard of the same port = discard (the commit is ignored)",
    "read_data is compared with the queue head only in cycles where empty = 0 (it is documented as valid only then); the "
    "lock-step tie and the correspondence runs nevertheless compare the raw read_data register in every cycle",
    "R lock-step tie configurations (depth, width): (1,1) (2,1) (3,1) quick; plus (2,2) thorough.  Correspondence "
    "configurations: (4,8) (16,8) (127,10) quick; plus (6,3) (64,10) (1023,10) thorough; (127,10) and (1023,10) are what "
    "USBStreamOutEndpoint instantiates for 64- and 512-byte packets.  Other sizes rest on the parametric theorem about the model.",
    "reset: the FIFO is observed from power-on (all pointers 0, memory 0); synchronous reset input tied to 0",
]
TIE_IMPORTS = "From LunaModel Require Import TxFifo TxFifo_proofs.\n"

IN_NAMES = ["read_en", "read_commit", "read_discard", "write_en", "write_commit", "write_discard", "write_data"]


def mk(depth, width, big):
    def build():
        from luna.gateware.memory import TransactionalizedFIFO
        d = TransactionalizedFIFO(width=width, depth=depth, name="fifo")
        ins = [(n, getattr(d, n)) for n in IN_NAMES]
        outs = [("empty", d.empty), ("full", d.full), ("read_data", d.read_data), ("space_available", d.space_available)]
        return d, ins, outs
    t = Target(f"txfifo_d{depth}_w{width}", build)
    t.params = dict(depth=depth, width=width)
    t.big = big
    return t


def targets(tier):
    small = [(1, 1), (2, 1), (3, 1)]
    big = [(4, 8), (16, 8), (127, 10)]
    if tier != "quick":
        small += [(2, 2)]
        big += [(6, 3), (64, 10), (1023, 10)]
    return [mk(d, w, False) for d, w in small] + [mk(d, w, True) for d, w in big]


# per-cycle probabilities of (read_en, read_commit, read_discard, write_en, write_commit, write_discard)
PROFILES = [
    (0.30, 0.10, 0.03, 0.90, 0.10, 0.03),   # producer-heavy: runs into `full`, wraps with uncommitted data
    (0.90, 0.15, 0.05, 0.40, 0.20, 0.03),   # consumer-heavy: runs into `empty`
    (0.50, 1.00, 0.00, 0.60, 0.08, 0.04),   # read_commit tied to 1 (how the USB endpoints use it)
    (0.60, 0.10, 0.25, 0.60, 0.15, 0.25),   # many rollbacks on both ports, reads right after read discards
    (0.50, 0.50, 0.50, 0.50, 0.50, 0.50),   # adversarial: everything at once
    (0.70, 0.30, 0.30, 0.80, 0.30, 0.30),   # frequent simultaneous commit+discard
    (0.20, 0.02, 0.02, 0.95, 0.02, 0.01),   # long uncommitted fill
]


def traces(target, rng, tier):
    depth, width = target.params["depth"], target.params["width"]
    n = (14 if tier == "quick" else 60) if target.big else (20 if tier == "quick" else 80)
    if depth > 500: n = min(n, 21)
    out = []
    for k in range(n):
        p = PROFILES[k % len(PROFILES)]
        base = rng.choice([0, 1, depth - 1, depth, depth + 1, 2 * depth + 3, 3 * depth + 5])
        length = max(1, min(base + rng.randint(5, 120), 2600))
        tr = []
        burst = 0
        for c in range(length):
            # bursts of plain traffic (no strobes) let transactions grow beyond a few entries
            if burst == 0 and rng.random() < 0.05:
                burst = rng.randint(1, depth + 2)
            quiet = burst > 0
            if quiet: burst -= 1
            cyc = dict(read_en=int(rng.random() < p[0]),
                       read_commit=int(rng.random() < (p[1] if not quiet or p[1] == 1.0 else 0.0)),
                       read_discard=int(rng.random() < (0.0 if quiet else p[2])),
                       write_en=int(rng.random() < p[3]),
                       write_commit=int(rng.random() < (0.0 if quiet else p[4])),
                       write_discard=int(rng.random() < (0.0 if quiet else p[5])),
                       write_data=rng.getrandbits(width))
            tr.append(cyc)
        out.append(tr)
    return out


def _coq(t):
    return f"{t.params['depth']}%nat", str(t.params["width"])


def obligations(targets, tier):
    obs = []
    for t in targets:
        D, W = _coq(t)
        if t.big:
            obs.append(tie.corr(f"corr_{t.name}", t, mstep=f"tf_mstep {D} {W}", m0=f"tf_init {D}",
                                describe=f"FIFO model vs simulator of TransactionalizedFIFO(depth={t.params['depth']}, "
                                         f"width={t.params['width']}), all outputs incl. raw read_data, every cycle"))
            continue
        obs.append(tie.rlock(
            f"ob_{t.name}", t,
            St="tf_state", mstep=f"tf_mstep {D} {W}", enc=f"tf_enc {D} {W}", dec=f"tf_dec {D} {W}",
            wf=f"tf_wf {D} {W}", dec_enc=f"tf_dec_enc {D} {W}", wf_step=f"tf_wf_step {D} {W}",
            m0=f"tf_init {D}", wf_m0="apply tf_wf_init.",
            alpha_bits=6 + t.params["width"], fuel=100000,
            describe=f"TransactionalizedFIFO(depth={t.params['depth']}, width={t.params['width']}) == pointer/memory model, "
                     f"all outputs, all input histories (every combination of the six strobes and data in every cycle)"))
    return obs


def tie_theorems(targets, tier):
    s = ""
    for t in targets:
        if t.big: continue
        D, W = _coq(t)
        k = 6 + t.params["width"]
        s += f"""
Theorem C18_{t.name} : forall tr, Forall (fun i => i < 2 ^ N.of_nat {k}) tr ->
  exists outs, run {t.modname}.step {t.modname}.init tr = map (tf_pack_out {W}) outs /\\
               map tf_observe outs = aq_run {D} aq_init (map (tf_decode {W}) tr).
Proof.
  intros tr H. exists (tf_run {D} (tf_init {D}) (map (tf_decode {W}) tr)). split.
  - rewrite (ob_{t.name}_T.tie tr H (env_ok_true _ _ _ _)). apply tf_mrun.
  - apply txfifo_from_reset.
Qed.
"""
    return s


def tie_theorem_names(targets, tier):
    return [f"C18_{t.name}" for t in targets if not t.big]


LEVEL_TEXT = ("Machine-checked proof. (1) Refinement, for every depth, every entry value (hence every width) and every input history "
              "with no restriction on the strobes: the pointer-and-memory model of TransactionalizedFIFO (four pointers into a ring of "
              "depth+1 cells, synchronous non-transparent read port) shows exactly the observations -- head entry when not empty, "
              "empty, full, space_available -- of an abstract commit/rollback queue made of three lists (C18_txfifo_refines; proved "
              "with an abstraction function, a ring-order/no-overlap invariant and a commuting step, C18_step_commutes, "
              "C18_observe_commutes). (2) About the abstract queue: entries finalised ++ tentatively read ++ readable = entries "
              "committed, in order, at every time (C18_queue_order: nothing lost, duplicated or reordered), never more than depth "
              "entries held (C18_capacity); empty/full/space are by definition 'no readable entry' / 'held = depth' / 'depth - held'. "
              "(3) For each tie configuration the netlist regenerated from /repo is proved output-equal to the model on all input "
              "histories of any length (certified product reachability), giving C18_<cfg>: netlist observations = abstract queue.")
LEVEL_NOTE = ("The model is the property-satisfying behaviour. The tree as found violates the property in two ways, both confirmed on "
              "Amaranth's simulator (findings/C18-*.json): read_data shows a stale entry (with empty=0) in the cycle after a read_discard, "
              "and commit together with discard of the same port swaps the committed and current pointers, corrupting the queue. "
              "findings/C18-commit-discard-and-stale-read.diff repairs both (3 changed lines + 2 added in memory.py); the check passes on a "
              "tree with that patch and reports VIOLATION with a replay on a tree without it. "
              "Trusted: Coq kernel + vm_compute, Amaranth elaboration to NIR, nir2coq.py/Netlist.v (validated each run against "
              "Amaranth's simulator). The tie is per configuration (small depths, 1-2 bit entries); realistic sizes (127x10, 1023x10) "
              "are covered by differential correspondence runs, not by proof.")
TECHNIQUE = ("Rocq proof: data refinement (abstraction function + invariant + commuting step) of a ring-buffer model to a three-list "
             "queue specification, parametric in depth; certified product-reachability (lock-step) against the regenerated netlist")
