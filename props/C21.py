"""C21 -- frame / microframe numbers (luna/gateware/usb/usb2/device.py: USBDevice, "Frame/microframe state")."""
from harness.core import Target
from harness.slice import SlicedTarget
from harness import tie, tie_alpha

PID = "C21"
ASSUMPTIONS = [
    "the frame logic is not a module of its own: target `framelogic` elaborates the real USBDevice (UTMI bus) with its USBTokenDetector "
    "replaced by an empty stub, so that token_detector.interface.new_frame / .frame become free inputs, and keeps the cone of influence "
    "of frame_number / microframe_number / new_frame / sof_detected (harness/slice.py; validated against the simulator of the complete "
    "stubbed device on every run). The statements elaborated are those of /repo's device.py",
    "reset counts as 'frame 0, microframe 0': a first SOF with frame number 0 is a repeat (no new_frame, microframe 1)",
    "a SOF is what the token detector reports (interface.new_frame with interface.frame); that this is exactly the well-formed SOF packets "
    "on UTMI is C01's subject and is here only covered by correspondence: target `device_utmi` is the complete USBDevice driven over the "
    "UTMI receive bus, compared with the end-to-end specification e2e_step (packetiser + PID 0xA5 + CRC5 + frame recurrence), also as a "
    "runtime oracle (e2e_mon). Its histories use several rx_valid pacings (back-to-back, 1, 2, random, and full-speed style 39 idle "
    "cycles between bytes with rx_active held) and, between real SOFs, OUT/SETUP transactions (to address 0 and to other addresses) "
    "whose DATA0/1 packets are adversarial: valid CRC16 with the last three bytes forming a well-formed SOF/other token, raw token "
    "tails, token bytes mid-payload, truncations; plus handshakes, malformed and over-long SOFs",
    "the kernel-checked netlist = model tie is over all traces whose (sof, frame) words use frame numbers from a finite set that exercises "
    "every frame bit both ways (0, all-ones, every one-hot and one-cold pattern, alternating patterns); all 2^11 values only by correspondence",
    "microframe_number is a 3-bit counter: more than 8 SOFs with the same frame number wrap it (not excluded, modelled)",
]
TIE_IMPORTS = "From LunaModel Require Import Handshake FrameTrack FrameTrack_proofs.\n"

OUTS = lambda d: [("frame_number", d.frame_number), ("microframe_number", d.microframe_number),
                  ("new_frame", d.new_frame), ("sof_detected", d.sof_detected)]


def mk_framelogic():
    def build():
        from amaranth import Elaboratable, Module, Signal
        from luna.gateware.usb.usb2.device import USBDevice
        import luna.gateware.usb.usb2.device as devmod
        from luna.gateware.usb.usb2.packet import TokenDetectorInterface
        from luna.gateware.interface.utmi import UTMIInterface
        tdi = TokenDetectorInterface()

        class StubTokenDetector(Elaboratable):
            def __init__(self, *, utmi, domain_clock=60e6, fs_only=False, filter_by_address=True):
                self.interface = tdi
                self.address = Signal(7); self.speed = Signal(2)
            def elaborate(self, platform):
                return Module()

        class Dev(USBDevice):
            def elaborate(self, platform):
                orig = devmod.USBTokenDetector
                devmod.USBTokenDetector = StubTokenDetector
                try:
                    return super().elaborate(platform)
                finally:
                    devmod.USBTokenDetector = orig
        d = Dev(bus=UTMIInterface())
        return d, [("sof", tdi.new_frame), ("frame", tdi.frame)], OUTS(d)
    t = SlicedTarget("framelogic", build); t.kind = "logic"
    return t


def mk_device():
    def build():
        from luna.gateware.usb.usb2.device import USBDevice
        from luna.gateware.interface.utmi import UTMIInterface
        u = UTMIInterface()
        d = USBDevice(bus=u)
        return d, [("rx_active", u.rx_active), ("rx_valid", u.rx_valid), ("rx_data", u.rx_data)], OUTS(d)
    t = SlicedTarget("device_utmi", build); t.kind = "device"
    return t


def targets(tier):
    return [mk_framelogic(), mk_device()]


# ---- frame-number sequences -------------------------------------------------------------------
def frame_seq(rng, n):
    """repeats (microframes), increments, skips, wrap-around, random jumps"""
    f = rng.choice([0, 0, 1, 2046, 2047, rng.randrange(2048)])
    out = []
    while len(out) < n:
        r = rng.random()
        if r < 0.5:
            reps = rng.choice([1, 2, 7, 8, 9, 10])
        else:
            reps = 1
        out += [f] * reps
        r = rng.random()
        if r < 0.6: f = (f + 1) % 2048
        elif r < 0.75: f = (f + rng.randrange(2, 5)) % 2048
        elif r < 0.85: f = f ^ (1 << rng.randrange(11))
        else: f = rng.randrange(2048)
    return out[:n]


def crc5(x):
    crc = 0x1f
    for k in range(11):
        top = ((crc >> 4) & 1) ^ ((x >> k) & 1)
        crc = (crc << 1) & 0x1f
        if top: crc ^= 0x05
    crc ^= 0x1f
    return int('{:05b}'.format(crc)[::-1], 2)


def token_bytes(pid, payload11):
    return [pid | ((pid ^ 0xF) << 4), payload11 & 0xFF, (payload11 >> 8) | (crc5(payload11) << 3)]


def logic_traces(rng, n):
    out = []
    for k in range(n):
        fs = frame_seq(rng, rng.randint(1, 40))
        p = rng.choice([0.1, 0.5, 1.0])
        tr = []
        for f in fs:
            while rng.random() > p:
                tr.append(dict(sof=0, frame=rng.choice([f, rng.randrange(2048)])))
            tr.append(dict(sof=1, frame=f))
        tr.append(dict(sof=0, frame=0))
        out.append(tr)
    return out


def crc16(data):
    crc = 0xFFFF
    for byte in data:
        for i in range(8):
            top = ((crc >> 15) & 1) ^ ((byte >> i) & 1)
            crc = (crc << 1) & 0xFFFF
            if top: crc ^= 0x8005
    crc ^= 0xFFFF
    wire = int('{:016b}'.format(crc)[::-1], 2)
    return [wire & 0xFF, wire >> 8]


def data_packet(pid, payload):
    return [pid] + list(payload) + crc16(payload)


def token_like(b1, b2):
    return (b2 >> 3) == crc5(b1 | ((b2 & 7) << 8))


def crafted_data(rng, tail_pid):
    """A well-formed DATA0/DATA1 packet (valid CRC16) whose LAST THREE bytes read as a well-formed token
    (tail_pid byte, then CRC16 bytes that also pass the token CRC5 check): found by searching the byte(s) in front."""
    pid = rng.choice([0xC3, 0x4B])
    for _ in range(4000):
        payload = [rng.randrange(256) for _ in range(rng.randint(0, 5))] + [tail_pid]
        c = crc16(payload)
        if token_like(c[0], c[1]):
            return [pid] + payload + c
    return [pid, tail_pid] + token_bytes(5, 57)[1:]


def paced_packet(rng, data, gap, first_valid=False):
    """UTMI receive cycles of one packet with rx_valid low for `gap()` cycles before every byte and at the end
    (full-speed style pacing when gap is ~39; rx_active stays high)."""
    cyc = [dict(rx_active=1, rx_valid=int(first_valid), rx_data=rng.randrange(256))]
    for b in data:
        cyc += [dict(rx_active=1, rx_valid=0, rx_data=rng.choice([b, rng.randrange(256)]))] * gap()
        cyc.append(dict(rx_active=1, rx_valid=1, rx_data=b))
    cyc += [dict(rx_active=1, rx_valid=0, rx_data=rng.randrange(256))] * gap()
    return cyc


TOKEN_PIDS = [0xE1, 0x69, 0x2D, 0xB4]   # OUT IN SETUP PING


def device_traces(rng, n):
    out = []
    for k in range(n):
        flavour = k % 6                      # pacing: 0 none, 1 one idle cycle, 2 two, 3 FS (39), 4 random 0..3, 5 random incl. 39
        gap = [lambda: 0, lambda: 1, lambda: 2, lambda: 39, lambda: rng.randrange(4),
               lambda: rng.choice([0, 1, 2, 5, 39])][flavour]
        npk = rng.randint(2, 6) if flavour in (3, 5) else rng.randint(3, 14)
        tr = [dict(rx_active=0, rx_valid=0, rx_data=0)] * rng.randint(0, 3)
        def send(data):
            nonlocal tr
            tr += paced_packet(rng, data, gap, first_valid=(k % 5 == 1 and rng.random() < 0.5))
            tr += [dict(rx_active=0, rx_valid=0, rx_data=rng.randrange(256))] * rng.choice([1, 1, 2, 3, 6])
        for f in frame_seq(rng, npk):
            r = rng.random()
            if r < 0.45:
                send(token_bytes(0x5, f))                                      # well-formed SOF
            elif r < 0.50:
                d = token_bytes(0x5, f); d[2] ^= 1 << rng.randrange(8); send(d)   # CRC / frame bit error
            elif r < 0.54:
                send(token_bytes(0x5, f)[:rng.randint(1, 2)])                  # truncated
            elif r < 0.58:
                send(token_bytes(0x5, f) + [rng.randrange(256)])               # too long
            elif r < 0.64:
                send(token_bytes(rng.choice([0x1, 0x9, 0xD, 0x4]), rng.randrange(2048)))   # OUT/IN/SETUP/PING token
            elif r < 0.68:
                send([rng.choice([0xD2, 0x5A, 0x1E, 0x96])])                   # handshake
            else:
                # OUT / SETUP transaction (to us = address 0, or to another device) whose data packet is adversarial
                addr = rng.choice([0, 0, rng.randrange(128)]); ep = rng.randrange(16)
                send(token_bytes(rng.choice([0x1, 0xD]), addr | (ep << 7)))
                q = rng.random()
                fake = token_bytes(rng.choice([0x5, 0x5, 0x5, 0x1, 0x9]), rng.randrange(2048))
                if q < 0.40:      # valid CRC16, and the last three bytes are a well-formed SOF (or other) token
                    send(crafted_data(rng, rng.choice([0xA5, 0xA5, 0xA5] + TOKEN_PIDS)))
                elif q < 0.60:    # raw: payload tail is a well-formed token (packet CRC16 then wrong)
                    send([rng.choice([0xC3, 0x4B])] + [rng.randrange(256) for _ in range(rng.randint(0, 5))] + fake)
                elif q < 0.80:    # well-formed token bytes in the middle of a valid data packet
                    send(data_packet(rng.choice([0xC3, 0x4B]), [rng.randrange(256) for _ in range(rng.randint(0, 3))] + fake +
                                     [rng.randrange(256) for _ in range(rng.randint(1, 3))]))
                elif q < 0.90:    # truncated data packet ending inside / right after the fake token
                    d = [0xC3] + [rng.randrange(256) for _ in range(rng.randint(0, 2))] + fake
                    send(d[:rng.randint(1, len(d))])
                else:
                    send(data_packet(0xC3, [rng.randrange(256) for _ in range(rng.randint(0, 8))]))
                if rng.random() < 0.3:
                    send([rng.choice([0xD2, 0x5A])])
        tr += [dict(rx_active=0, rx_valid=0, rx_data=0)] * 3
        out.append(tr)
    return out


def traces(target, rng, tier):
    if target.kind == "logic":
        return logic_traces(rng, 40 if tier == "quick" else 400)
    return device_traces(rng, 30 if tier == "quick" else 200)


def frame_alphabet(tier):
    full = 0x7FF
    fs = [0, full, 0x555, 0x2AA] + [1 << k for k in range(11)] + [full ^ (1 << k) for k in range(11)]
    if tier != "quick":
        fs += [(1 << k) - 1 for k in range(2, 11)] + [full ^ ((1 << k) - 1) for k in range(2, 11)] + [3 << k for k in range(10)]
        fs += [0x123, 0x456, 0x710, 0x0F0, 0x70F, 0x3C3]
    seen = []
    for f in fs:
        if f not in seen: seen.append(f)
    return seen


def obligations(targets, tier):
    obs = []
    for t in targets:
        if t.kind == "logic":
            fs = frame_alphabet(tier)
            alpha = "flat_map (fun f => [2 * f; 1 + 2 * f]) [" + "; ".join(str(f) for f in fs) + "]"
            obs.append(tie_alpha.rlock_alpha(
                "ob_framelogic", t, St="(N * N)%type", mstep="ft_step 11 3", enc="ft_enc 11", dec="ft_dec 11",
                wf="ft_wf 11", dec_enc="ft_dec_enc 11", wf_step="ft_wf_step 11 3", m0="ft_init", wf_m0="exact (ft_wf_init 11).",
                alphabet=alpha, fuel=100000,
                describe=f"frame/microframe logic of USBDevice (sliced netlist) == two-register model, all traces of (sof, frame) words with "
                         f"frame numbers from a {len(fs)}-element set covering every frame bit both ways"))
            obs.append(tie.corr("corr_framelogic", t, mstep="ft_step 11 3", m0="ft_init",
                                describe="frame/microframe logic vs two-register model on simulator traces, frame numbers over the full 11-bit range"))
        else:
            obs.append(tie.cmon("oracle_device_utmi", t, mon="e2e_mon", m0="e2e_m0",
                                describe="runtime oracle on the complete USBDevice over UTMI: frame_number / microframe_number / new_frame / "
                                         "sof_detected move only at well-formed SOF packets, exactly as the end-to-end specification says "
                                         "(histories with full-speed style rx_valid pacing and data packets crafted to end in / contain "
                                         "well-formed token bytes)"))
            obs.append(tie.corr("corr_device_utmi", t, mstep="e2e_step", m0="e2e_init",
                                describe="complete USBDevice (real token detector) driven with SOF and other packets over UTMI vs the "
                                         "end-to-end specification (well-formed SOF packets -> frame recurrence)"))
    return obs


def tie_theorems(targets, tier):
    t = [x for x in targets if x.kind == "logic"][0]
    return f"""
Theorem C21_framelogic : forall tr t, Forall (fun i => In i ob_framelogic.alpha) tr -> (t < length tr)%nat ->
  nth t (run {t.modname}.step {t.modname}.init tr) 0 = ft_spec_out 11 3 (firstn t tr) (nth t tr 0).
Proof.
  intros tr t H Ht. rewrite (ob_framelogic_T.tie tr H (env_ok_true _ _ _ _)). apply frametrack_exact. exact Ht.
Qed.
"""


def tie_theorem_names(targets, tier):
    return ["C21_framelogic"]


LEVEL_TEXT = ("Machine-checked proof. (1) For all widths fw/mw and every history of token-detector reports, the two-register model of "
              "USBDevice's frame logic shows, in every cycle, frame_number/microframe_number = the recurrence over the SOFs received so far "
              "(frame := SOF's number; microframe := 0 if the number changed, +1 mod 2^mw if it repeated), new_frame iff the cycle's SOF "
              "number differs from frame_number, sof_detected iff a SOF is reported (C21_frametrack_exact, C21_frame_is_last_sof, "
              "C21_microframe_recurrence). (2) The cone of influence of those four outputs in the netlist of the real USBDevice "
              "(token detector stubbed so that its reports are free inputs) is proved equal to the model on all traces, of any length, whose "
              "frame values come from a finite set exercising every frame bit both ways (certified product reachability; C21_framelogic). "
              "(3) Not proved, only checked by correspondence on simulator traces: frame values over the full 11-bit range, and the complete "
              "USBDevice with its real token detector driven over UTMI (SOFs interleaved with token-lookalike data packets, handshakes, "
              "malformed packets; back-to-back and full-speed style rx_valid pacing) against the end-to-end specification (PID 0xA5, "
              "CRC5, 3 bytes exactly), as correspondence and as a runtime oracle: the four outputs move only at well-formed SOFs.")
LEVEL_NOTE = ("Trusted: Coq kernel + vm_compute, Amaranth elaboration, nir2coq.py/Netlist.v and harness/slice.py (cone-of-influence slicing; the "
              "sliced machine is validated each run against pysim of the unsliced device). An all-values netlist tie is out of reach for "
              "explicit-state closure (2^11 frame values x 2^14 register states); the restriction is on frame VALUES only, not on trace "
              "length or SOF timing. SOF recognition itself (token detector) is C01's subject.")
TECHNIQUE = ("Rocq proof: induction over the history against an event-level fold specification (parametric widths) + certified "
             "product-reachability of the sliced USBDevice netlist over a bit-covering frame alphabet + end-to-end simulator correspondence")
