"""C35 -- link commands round-trip and corrupted commands are rejected
(luna/gateware/usb/usb3/link/command.py: LinkCommandGenerator, LinkCommandDetector; link/crc.py: compute_usb_crc5)."""
from harness.core import Target
from harness import tie
from harness import tie_ss
from harness.tie import Obligation
from harness.nir_split import SplitTarget

PID = "C35"

HDR_DATA, HDR_CTRL = 0xF7FEFEFE, 0xF

ASSUMPTIONS = [
    "no environment hypothesis on the generator (any command/subtype/generate/ready history) or the detector (any 32+4-bit words, "
    "any valid gaps); the per-transaction theorems fix only the shape 'request, stalls, ready, stalls, ready' with unbounded stall lengths",
    "CRC-5 reference convention: polynomial x^5+x^2+1, register preset to ones, protected bits 0..10 in order, remainder complemented "
    "and bit-reversed into bits 11..15 (checked equal to the coded XOR equations on all 2^11 inputs inside Coq); the CRC kernels "
    "themselves belong to C30",
    "the generator netlist assigns link_command[11:16] from link_command[0:11] (a cell-level combinational self-reference); it is "
    "printed through harness/nir_split.py, which splits that assignment list; the result is validated against pysim like every target",
    "R ties: generator netlist == model on ALL traces over (command, subtype) requests with/without ready plus non-request inputs "
    "(thorough: all 256 pairs; quick: 112 pairs = every command x 4 subtypes + 4 commands x every subtype); detector netlist == model on all traces over a structured alphabet (start word, good command "
    "words, every single-bit corruption of either/both copies, ctrl flags, invalid words) and, as a separate sweep theorem, on the probe "
    "trace of every one of the 2^16 equal-copy words; the wired pair generator->detector on all traces over sampled pairs; arbitrary "
    "words by simulator correspondence",
    "the detector does not check the reserved bits 4..6 (a word with a valid CRC over non-zero reserved bits is reported); the "
    "generator always sends them as 0",
]
TIE_IMPORTS = "From LunaLib Require Import SymWord.\nFrom LunaModel Require Import LinkCommand LinkCommand_proofs.\n"


# ---------------------------------------------------------------------------------------------
def mk_gen():
    def build():
        from luna.gateware.usb.usb3.link.command import LinkCommandGenerator
        d = LinkCommandGenerator()
        return (d, [("command", d.command), ("subtype", d.subtype), ("generate", d.generate), ("ready", d.source.ready)],
                [("data", d.source.data), ("ctrl", d.source.ctrl), ("valid", d.source.valid), ("done", d.done)])
    t = SplitTarget("lcgen", build); t.kind = "gen"
    return t


def mk_det():
    def build():
        from luna.gateware.usb.usb3.link.command import LinkCommandDetector
        d = LinkCommandDetector()
        return (d, [("data", d.sink.data), ("ctrl", d.sink.ctrl), ("valid", d.sink.valid)],
                [("command", d.command), ("subtype", d.subtype), ("new_command", d.new_command),
                 ("cclass", d.command_class), ("ctype", d.command_type)])
    t = Target("lcdet", build); t.kind = "det"
    return t


def mk_rt():
    def build():
        from amaranth import Elaboratable, Module, Signal
        from luna.gateware.usb.usb3.link.command import LinkCommandGenerator, LinkCommandDetector

        class Pair(Elaboratable):
            """generator -> detector; a word is transferred when valid & ready"""
            def __init__(self):
                self.gen = LinkCommandGenerator(); self.det = LinkCommandDetector(); self.ready = Signal()
            def elaborate(self, platform):
                m = Module()
                m.submodules.gen = g = self.gen
                m.submodules.det = d = self.det
                m.d.comb += [g.source.ready.eq(self.ready), d.sink.data.eq(g.source.data), d.sink.ctrl.eq(g.source.ctrl),
                             d.sink.valid.eq(g.source.valid & self.ready)]
                return m
        p = Pair()
        return (p, [("command", p.gen.command), ("subtype", p.gen.subtype), ("generate", p.gen.generate), ("ready", p.ready)],
                [("command_o", p.det.command), ("subtype_o", p.det.subtype), ("new_command", p.det.new_command),
                 ("cclass", p.det.command_class), ("ctype", p.det.command_type),
                 ("valid", p.gen.source.valid), ("done", p.gen.done)])
    t = SplitTarget("lcrt", build); t.kind = "rt"
    return t


def targets(tier):
    return [mk_gen(), mk_det(), mk_rt()]


# ---------------------------------------------------------------------------------------------
def _crc5(x):
    b = lambda i: (x >> (10 - i)) & 1
    X = lambda *idx: sum(b(i) for i in idx) & 1
    bits = [X(10, 9, 8, 5, 4, 2), 1 ^ X(10, 9, 8, 7, 4, 3, 1), X(10, 9, 8, 7, 6, 3, 2, 0), X(10, 7, 6, 4, 1), X(10, 9, 6, 5, 3, 0)]
    return sum(v << k for k, v in enumerate(bits))


def _lc_data(c, s, reserved=0):
    p = s | (reserved << 4) | (c << 7)
    w = p | (_crc5(p) << 11)
    return w | (w << 16)


def _gen_trace(rng, n):
    tr = []
    p_gen = rng.choice([0.1, 0.3, 0.9]); p_rdy = rng.choice([1.0, 0.8, 0.5, 0.2])
    for _ in range(n):
        tr.append(dict(command=rng.randrange(16), subtype=rng.randrange(16),
                       generate=int(rng.random() < p_gen), ready=int(rng.random() < p_rdy)))
    return tr


def _det_trace(rng, n):
    tr = []
    p_valid = rng.choice([1.0, 0.9, 0.5])
    def put(data, ctrl):
        while rng.random() > p_valid:
            tr.append(dict(data=rng.getrandbits(32), ctrl=rng.getrandbits(4), valid=0))
        tr.append(dict(data=data, ctrl=ctrl, valid=1))
    while len(tr) < n:
        k = rng.random()
        if k < 0.15:
            put(rng.getrandbits(32), rng.choice([0, 0, rng.getrandbits(4)]))            # noise
            continue
        if k < 0.25:
            put(HDR_DATA ^ (1 << rng.randrange(32)), HDR_CTRL)                          # damaged start word
            continue
        put(HDR_DATA, HDR_CTRL)
        c, s = rng.randrange(16), rng.randrange(16)
        d = _lc_data(c, s, reserved=rng.choice([0, 0, 0, rng.randrange(8)])); ctrl = 0
        k = rng.random()
        if k < 0.12:   d ^= 1 << rng.randrange(16)                                     # low copy damaged
        elif k < 0.24: d ^= 1 << rng.randrange(16, 32)                                 # high copy damaged
        elif k < 0.36: b = rng.randrange(16); d ^= (1 << b) | (1 << (b + 16))          # both copies, CRC wrong
        elif k < 0.44: w = rng.getrandbits(16); d = w | (w << 16)                      # random equal copies
        elif k < 0.52: ctrl = rng.choice([1, 2, 4, 8, 15, rng.randrange(1, 16)])       # control flags
        elif k < 0.58: d, ctrl = HDR_DATA, HDR_CTRL                                    # a second start word
        put(d, ctrl)
    tr.append(dict(data=0, ctrl=0, valid=0))
    return tr


def traces(target, rng, tier):
    n = 40 if tier == "quick" else 300
    out = []
    for k in range(n):
        L = rng.choice([1, 2, 3, 5, 8, 20, 60])
        out.append(_det_trace(rng, L) if target.kind == "det" else _gen_trace(rng, L))
    return out


# ---------------------------------------------------------------------------------------------
R16 = "range16"


def _cfg(tier):
    q = tier == "quick"
    return dict(
        gen_alpha=(f"gen_alphabet {R16} [0;5;10;15] ++ gen_alphabet [1;2;4;8] {R16}" if q else f"gen_alphabet {R16} {R16}"),
        det_alpha=("det_alphabet (pairs range16 [0;5;10;15]) [(0,0);(15,15);(5,10);(10,5)]" if q else
                   "det_alphabet (pairs range16 range16) (pairs [0;3;12;15] [0;6;9;15])"),
        rt_alpha=("gen_alphabet [0;3;12;15] [0;6;9;15]" if q else "gen_alphabet [0;1;2;4;7;8;11;15] [0;6;9;15]"),
        sweep_bits=(11 if q else 16),
    )


def _sweep(name, target, bits):
    """E-style obligation: for EVERY w < 2^bits, the detector netlist and the model agree on the probe trace
    [start word; w|w<<16 (ctrl 0, valid); invalid; start word; LC(5,9); invalid] from reset (outputs of all six cycles,
    which expose the report of w, the registers and the FSM state afterwards).  bits = 16: all equal-copy words."""
    G = target.modname
    defs = f"""
Module {name}.
  Definition probe (w : N) : list N :=
    [det_pack HDR_DATA HDR_CTRL true; det_pack (w + 65536 * w) 0 true; det_pack 0 0 false;
     det_pack HDR_DATA HDR_CTRL true; det_pack (lc_data 5 9) 0 true; det_pack 0 0 false].
  Definition okw (w : N) : bool := list_eqb (run {G}.step {G}.init (probe w)) (run det_mstep det_init (probe w)).
  Definition mon := rl_mon det_state det_mstep det_enc det_dec (fun _ _ => true).
  Definition m0 := det_enc det_init.
  Definition ob_cex := Eval vm_compute in match find_bits {bits} okw with Some w => Some (probe w) | None => None end.
  Definition ob_left := 0%nat.
  Definition ob_states := {bits}%nat.   (* swept input bits *)
End {name}.
"""
    thms = f"""
Module {name}_T.
  Import {name}.
  Lemma sweep : forall_bits {bits} okw = true.
  Proof. vm_cast_no_check (@eq_refl bool true). Qed.
  Theorem tie : forall w, w < 2 ^ N.of_nat {bits} ->
    run {G}.step {G}.init (probe w) = run det_mstep det_init (probe w).
  Proof. intros w H. apply list_eqb_eq. exact (forall_bits_sound {bits} okw sweep w H). Qed.
End {name}_T.
"""
    return Obligation(name, "R-sweep", target, defs, thms, [f"{name}_T.tie"],
                      f"LinkCommandDetector == model on the probe trace of every equal-copy command word w|w<<16, w < 2^{bits}",
                      mon_expr=f"{name}.mon", m0_expr=f"{name}.m0")


def obligations(targets, tier):
    cfg = _cfg(tier)
    g, d, r = targets
    obs = [
        tie_ss.rlock_alpha("ob_gen", g, St="gen_state", mstep="gen_mstep", enc="gen_enc", dec="gen_dec", wf="gen_wf",
                           dec_enc="gen_dec_enc", wf_step="gen_wf_step", m0="gen_init", wf_m0="exact gen_wf_init.",
                           alphabet=cfg["gen_alpha"], fuel=5000,
                           describe=f"LinkCommandGenerator == FSM model on all traces over {cfg['gen_alpha']}: requests of the listed "
                                    "(command, subtype) pairs with ready 0/1, non-requests with ready 0/1"),
        tie_ss.rlock_alpha("ob_det", d, St="det_state", mstep="det_mstep", enc="det_enc", dec="det_dec", wf="det_wf",
                           dec_enc="det_dec_enc", wf_step="det_wf_step", m0="det_init", wf_m0="exact det_wf_init.",
                           alphabet=cfg["det_alpha"], fuel=5000,
                           describe=f"LinkCommandDetector == FSM model on all traces over {cfg['det_alpha']} "
                                    "(start word valid/invalid/damaged, good command words, all single-bit corruptions of "
                                    "low/high/both copies, ctrl flags, invalid words)"),
        _sweep("ob_det_sweep", d, cfg["sweep_bits"]),
        tie_ss.rlock_alpha("ob_rt", r, St="(gen_state * det_state)%type", mstep="rt_mstep", enc="rt_enc", dec="rt_dec", wf="rt_wf",
                           dec_enc="rt_dec_enc", wf_step="rt_wf_step", m0="(gen_init, det_init)", wf_m0="exact rt_wf_init.",
                           alphabet=cfg["rt_alpha"], fuel=5000,
                           describe=f"generator wired to detector (transfer when valid & ready) == composed model on all traces "
                                    f"over {cfg['rt_alpha']}"),
        tie.corr("corr_gen", g, mstep="gen_mstep", m0="gen_init", describe="generator model vs simulator, random requests and stalls"),
        tie.corr("corr_det", d, mstep="det_mstep", m0="det_init",
                 describe="detector model vs simulator: framed commands with random corruptions (either/both copies, random equal copies, "
                          "ctrl flags, reserved bits), damaged/duplicated start words, noise, invalid gaps"),
        tie.corr("corr_rt", r, mstep="rt_mstep", m0="(gen_init, det_init)", describe="wired pair vs simulator, random requests and stalls"),
    ]
    return obs


def tie_theorems(targets, tier):
    g, d, r = targets
    return f"""
(* netlist of the generator = encoded FSM model, and of the wired pair = encoded composed model *)
Theorem C35_gen_netlist : forall tr, Forall (fun i => In i ob_gen.alpha) tr ->
  run {g.modname}.step {g.modname}.init tr = map gen_eout (trun gen_step gen_init (map gen_din tr)).
Proof.
  intros tr H. pose proof (ob_gen_T.tie tr H (env_ok_true _ _ _ _)) as T. unfold ob_gen.norm in T.
  rewrite map_id in T. rewrite T. apply gen_mrun.
Qed.
Theorem C35_det_netlist : forall tr, Forall (fun i => In i ob_det.alpha) tr ->
  run {d.modname}.step {d.modname}.init tr = map det_eout (trun det_step det_init (map det_din tr)).
Proof.
  intros tr H. pose proof (ob_det_T.tie tr H (env_ok_true _ _ _ _)) as T. unfold ob_det.norm in T.
  rewrite map_id in T. rewrite T. apply det_mrun.
Qed.
Theorem C35_rt_netlist : forall tr, Forall (fun i => In i ob_rt.alpha) tr ->
  run {r.modname}.step {r.modname}.init tr = map rt_eout (trun rt_step (gen_init, det_init) (map gen_din tr)).
Proof.
  intros tr H. pose proof (ob_rt_T.tie tr H (env_ok_true _ _ _ _)) as T. unfold ob_rt.norm in T.
  rewrite map_id in T. rewrite T. apply rt_mrun.
Qed.
"""


def tie_theorem_names(targets, tier):
    return ["C35_gen_netlist", "C35_det_netlist", "C35_rt_netlist"]


LEVEL_TEXT = ("Machine-checked proof. Models: FSM models of LinkCommandGenerator/Detector, the CRC-5 as coded (XOR equations). Theorems (all "
              "commands/subtypes, unbounded stalls): (1) the coded CRC-5 equals the bit-serial reference on all 2^11 inputs (C35_crc5_is_reference); "
              "(2) a request accepted in IDLE puts SLC SLC SLC EPF on the wire, held until ready, then two identical copies of "
              "subtype|command<<7|crc5<<11 with the reference CRC and ctrl = 0, held until ready, done exactly then "
              "(C35_generator_transaction, C35_command_word, C35_start_word); (3) the detector raises new_command exactly for a valid word in "
              "PARSE_COMMAND passing the acceptance test, which holds exactly for ctrl = 0, equal copies, correct CRC-5 "
              "(C35_detector_reports_iff, C35_accepts_iff_wellformed), reports bits 7..10/0..3 and otherwise keeps its registers; (4) generator "
              "wired to detector under any stall pattern yields exactly one report, of exactly the requested (command, subtype) "
              "(C35_roundtrip). Ties: generator netlist = model on all traces over requests x ready (thorough: all 256 pairs; quick: 112 pairs; certified product reachability); "
              "detector netlist = model on all traces over a structured corruption alphabet, plus a sweep theorem over equal-copy words; "
              "wired pair netlist = composed model over sampled pairs.")
LEVEL_NOTE = ("Trusted: Coq kernel + vm_compute, Amaranth elaboration, nir2coq.py/Netlist.v and the cell-splitting pre-pass harness/nir_split.py "
              "(needed because link_command feeds its own CRC bits; validated each run against pysim). The detector and generator MODELS are "
              "close to the code (the acceptance test is the code's three comparisons); what is proved about them is the characterisation by "
              "well-formedness, the CRC reference equality, the transaction and round-trip theorems. The detector tie is a theorem only for the "
              "listed alphabet (quick: 64 good words, all single-bit corruptions of 4 words; thorough: all 256 good words, corruptions of 16) and "
              "for the probe traces of the sweep (quick: w < 2^11, thorough: all 2^16 equal-copy words); words with two different arbitrary halves "
              "are covered by correspondence only. A start word arriving in PARSE_COMMAND is consumed as a (rejected) command word - modelled, "
              "and outside the property text.")
TECHNIQUE = ("Rocq proof: exhaustive kernel-checked sweeps for the CRC-5 and field arithmetic, induction over stall lengths for the transaction and "
             "round-trip theorems, certified product-reachability (lock-step over explicit alphabets) + sweep against the regenerated netlists, "
             "simulator correspondence")
