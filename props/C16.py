"""C16 -- isochronous OUT endpoint (luna/gateware/usb/usb2/endpoints/isochronous_stream_out.py:
USBIsochronousStreamOutEndpoint) delivers only whole, CRC-valid packets."""
from harness.core import Target
from harness import tie
from harness import tie_explicit

PID = "C16"
EP = 1          # endpoint number the targets are built with (the model is parametric in it)
TIE_IMPORTS = "From LunaModel Require Import BoundaryDet BoundaryDet_proofs TxFifo TxFifo_proofs C16_OutTrack IsoOut IsoOut_proofs.\n"

IN_LAYOUT = [("is_out", 1), ("rx_valid", 1), ("rx_next", 1), ("rx_complete", 1), ("rx_invalid", 1), ("ready", 1),
             ("endpoint", 4), ("rx_payload", 8)]


def mk(mps, buf, big):
    def build():
        from amaranth import Elaboratable, Module, Mux, Signal
        from luna.gateware.usb.usb2.endpoints.isochronous_stream_out import USBIsochronousStreamOutEndpoint

        class Wrapper(Elaboratable):
            """exposes the fields of the stream payload (a struct) as plain signals, masked by stream.valid"""
            def __init__(self):
                self.ep = USBIsochronousStreamOutEndpoint(endpoint_number=EP, max_packet_size=mps, buffer_size=buf)
                self.valid = Signal(); self.first = Signal(); self.last = Signal(); self.data = Signal(8)
            def elaborate(self, platform):
                m = Module(); m.submodules.ep = ep = self.ep
                # payload, first and last mean something only while valid is high: mask them, so that don't-care
                # values (stale FIFO read data) never count as a difference
                v = ep.stream.valid
                m.d.comb += [self.valid.eq(v), self.first.eq(ep.stream.p.first & v),
                             self.last.eq(ep.stream.p.last & v), self.data.eq(Mux(v, ep.stream.p.data, 0))]
                return m
        w = Wrapper(); d = w.ep; i = d.interface; tk = i.tokenizer
        return w, [("is_out", tk.is_out), ("rx_valid", i.rx.valid), ("rx_next", i.rx.next),
                   ("rx_complete", i.rx_complete), ("rx_invalid", i.rx_invalid), ("ready", d.stream.ready),
                   ("endpoint", tk.endpoint), ("rx_payload", i.rx.payload)], \
                  [("valid", w.valid), ("first", w.first), ("last", w.last), ("data", w.data)]
    t = Target(f"isoout_m{mps}_b{buf}", build)
    t.params = dict(mps=mps, buf=buf); t.big = big
    return t


# (max_packet_size, buffer_size).  max_packet_size = 1 cannot show a truncated packet, so the smallest lock-step
# configuration of the quick tier is (2, 2): "exactly max_packet_size entries free" is its initial state.
SMALL_QUICK = [(2, 2)]
SMALL_THOROUGH = [(1, 1), (1, 2), (2, 2)]      # (2, 3) also closes (18k+ product states) but takes ~10 min
BIG_QUICK = [(2, 3), (8, 23), (64, 128)]
BIG_THOROUGH = [(2, 3), (2, 4), (3, 5), (4, 8), (4, 11), (8, 16), (8, 23), (64, 128), (64, 191), (200, 512), (512, 1024)]


def targets(tier):
    small = SMALL_QUICK if tier == "quick" else SMALL_THOROUGH
    big = BIG_QUICK if tier == "quick" else BIG_THOROUGH
    return [mk(m, b, False) for m, b in small] + [mk(m, b, True) for m, b in big]


# ---------------------------------------------------------------------------------------------------
# trace generators
def pack_in(c):
    w = 0; lo = 0
    for n, wd in IN_LAYOUT:
        w |= (c[n] & ((1 << wd) - 1)) << lo; lo += wd
    return w


class Gen:
    """Packet-level script -> cycle trace.  The consumer's ready pattern is a second, independent process."""
    def __init__(self, rng, mps, buf, small=None, legal=True):
        self.rng = rng; self.mps = mps; self.buf = buf; self.small = small; self.legal = legal
        self.tr = []
        self.tok = (EP, 1)
        self.mode = rng.choice(["stall", "slow", "half", "fast", "always", "bursts"])
        self.burst = 0; self.burst_on = False

    def pay(self):
        return self.rng.choice(self.small) if self.small else self.rng.randrange(256)

    def ready(self):
        r = self.rng
        if self.mode == "stall": return int(r.random() < 0.03)
        if self.mode == "slow": return int(r.random() < 0.15)
        if self.mode == "half": return int(r.random() < 0.5)
        if self.mode == "fast": return int(r.random() < 0.9)
        if self.mode == "always": return 1
        if self.burst == 0:
            self.burst_on = not self.burst_on
            self.burst = r.randint(1, 2 * self.mps + 3) if self.burst_on else r.randint(self.mps, 6 * self.mps + 10)
        self.burst -= 1
        return int(self.burst_on)

    def cyc(self, valid=0, nxt=0, c=0, i=0, payload=None):
        ep, is_out = self.tok
        self.tr.append({"is_out": is_out, "rx_valid": valid, "rx_next": nxt, "rx_complete": c, "rx_invalid": i,
                        "ready": self.ready(), "endpoint": ep,
                        "rx_payload": self.pay() if payload is None else payload})

    def idle(self, k):
        for _ in range(k):
            if not self.legal and self.rng.random() < 0.1:
                self.cyc(0, int(self.rng.random() < 0.3), *self.rng.choice([(0, 0), (1, 0), (0, 1)]))
            else:
                self.cyc()

    def token(self):
        r = self.rng.random()
        if r < 0.75: self.tok = (EP, 1)
        elif r < 0.85: self.tok = (EP, 0)
        elif r < 0.95: self.tok = ((EP + 1 + self.rng.randrange(14)) % 16 or 2, 1)
        else: self.tok = (self.rng.randrange(16), self.rng.randrange(2))

    def packet(self, n=None, outcome=None, gaps=True):
        r = self.rng; mps = self.mps
        if n is None:
            sizes = [0, 1, 1, 2, mps - 1, mps, mps, mps]
            if not self.legal: sizes += [mps + 1, 2 * mps + 1]
            n = max(0, r.choice(sizes)) if r.random() < 0.8 else r.randint(0, mps)
        if outcome is None:
            x = r.random()
            # (complete and invalid together is never generated: there the FIFO model of C18 -- commit gated by
            #  ~discard -- and the FIFO as found differ; USBDataPacketReceiver cannot produce it)
            outcome = "good" if x < 0.7 else "bad" if x < 0.93 else "none"
            if self.legal and outcome == "none": outcome = "good"
        c = int(outcome == "good"); i = int(outcome == "bad")
        for _ in range(r.choice([0, 0, 1, 2])):            # rx.valid before the first byte (receiver latency)
            self.cyc(1, 0)
        for k in range(n):
            self.cyc(1, 1)
            if gaps:
                for _ in range(r.choice([0, 0, 0, 1, 3])):
                    if (not self.legal) and r.random() < 0.05: self.cyc(1, 0, c, i)     # early strobe
                    else: self.cyc(1, 0)
        self.cyc(0, 0, c, i)                                   # valid falls, strobe in the same cycle

    def run(self, npackets):
        r = self.rng
        self.idle(r.randint(0, 3))
        for _ in range(npackets):
            if r.random() < 0.5: self.token()
            self.idle(r.choice([0, 1, 2, 2, 3, 5, 9]))
            self.packet()
            self.idle(1 if self.legal else r.choice([0, 1]))   # E2: no byte right after the end
            if r.random() < 0.1: self.mode = r.choice(["stall", "slow", "half", "fast", "always", "bursts"])
        self.idle(3)
        self.mode = "always"; self.idle(r.randint(0, 2 * self.buf + 2) if self.buf < 64 else r.randint(0, 40))
        return self.tr


def fill_then_more(rng, mps, buf, small=None):
    """The boundary case: a stalled consumer, packets until the buffer holds buf - mps (+-1) entries, then more
    packets, then drain -- exercises `space_available == max_packet_size` and the drop path."""
    g = Gen(rng, mps, buf, small); g.mode = "stall"; g.tok = (EP, 1)
    g.ready = lambda: 0
    g.idle(2)
    room = buf
    while room > 0:
        n = rng.choice([mps, mps, max(1, mps - 1), 1]) if room > mps else rng.choice([mps, max(1, room - 1), room])
        n = max(1, min(n, mps))
        g.packet(n=n, outcome="good", gaps=rng.random() < 0.5); g.idle(rng.choice([1, 2, 4]))
        if room >= mps: room -= n
        else: break
    for _ in range(rng.randint(1, 3)):
        g.packet(outcome="good"); g.idle(rng.choice([1, 2, 3]))
    g.ready = lambda: int(rng.random() < 0.7)
    for _ in range(rng.randint(1, 3)):
        g.packet(); g.idle(rng.choice([1, 2, 5]))
    g.ready = lambda: 1
    g.idle(min(buf, 300) + 4)
    return g.tr


def noise(rng, n, small=None):
    tr = []
    for _ in range(n):
        tr.append({"is_out": int(rng.random() < 0.8), "rx_valid": int(rng.random() < 0.7), "rx_next": int(rng.random() < 0.5),
                   "rx_complete": 0, "rx_invalid": 0,
                   "ready": int(rng.random() < 0.4), "endpoint": EP if rng.random() < 0.8 else rng.randrange(16),
                   "rx_payload": rng.choice(small) if small else rng.randrange(256)})
        x = rng.random()
        if x < 0.15: tr[-1]["rx_complete"] = 1
        elif x < 0.25: tr[-1]["rx_invalid"] = 1
    return tr


SMALL_PAYLOADS = [0xA5, 0x5A]


def traces(target, rng, tier):
    mps, buf = target.params["mps"], target.params["buf"]
    out = []
    if not target.big:
        n = 10 if tier == "quick" else 40
        for k in range(n):
            out.append(Gen(rng, mps, buf, small=SMALL_PAYLOADS if k % 2 else None).run(rng.randint(2, 8)))
        for k in range(n // 2):
            out.append(fill_then_more(rng, mps, buf, small=SMALL_PAYLOADS if k % 2 else None))
        for k in range(n // 3):
            out.append(Gen(rng, mps, buf, legal=False).run(rng.randint(2, 6)))
    else:
        budget = 1000 if tier == "quick" else 8000
        total = 0
        k = 0
        while total < budget:
            t = fill_then_more(rng, mps, buf) if k % 3 == 0 else Gen(rng, mps, buf).run(rng.randint(2, 6))
            out.append(t); total += len(t); k += 1
        out.append(Gen(rng, mps, buf, legal=False).run(3))
    return out


# ---------------------------------------------------------------------------------------------------
OTHER_EP = (EP + 1) % 16


def alphabet(tier, mps=2):
    """input words of the lock-step obligations: receive side {idle, idle + rx_complete, idle + rx_invalid, rx.valid,
    rx.valid + rx.next} (the strobes as USBDataPacketReceiver drives them: never while rx.valid is high, never both)
    x stream.ready x token fields {OUT token for EP, OUT token for another endpoint (+ non-OUT token for EP, thorough)}
    x payload bytes {0xA5 (+ 0x5A, thorough)}"""
    words = []
    toks = [(EP, 1), (OTHER_EP, 1)] if tier == "quick" else [(EP, 1), (OTHER_EP, 1), (EP, 0)]
    pays = SMALL_PAYLOADS if (tier != "quick" and mps == 1) else SMALL_PAYLOADS[:1]
    for (ep, is_out) in toks:
        for (v, n, c, i) in [(0, 0, 0, 0), (0, 0, 1, 0), (0, 0, 0, 1), (1, 0, 0, 0), (1, 1, 0, 0)]:
            for rdy in (0, 1):
                for p in pays:
                    words.append(pack_in({"is_out": is_out, "rx_valid": v, "rx_next": n, "rx_complete": c, "rx_invalid": i,
                                          "ready": rdy, "endpoint": ep, "rx_payload": p}))
    return sorted(set(words))


def obligations(targets, tier):
    obs = []
    for t in targets:
        mps, buf = t.params["mps"], t.params["buf"]
        if not t.big:
            al = alphabet(tier, mps)
            obs.append(tie_explicit.rlock_alpha(
                f"ob_{t.name}", t,
                St="io_state", mstep=f"io_mstep {mps} {buf} {EP}", enc=f"io_enc {mps} {buf}", dec=f"io_dec {mps} {buf}",
                wf=f"io_wf {mps} {buf}", dec_enc=f"io_dec_enc {mps} {buf}", wf_step=f"io_wf_step {mps} {buf} {EP}",
                m0=f"io_init {buf}", wf_m0=f"apply io_wf_init.", env=f"io_menv {mps} {EP}",
                alphabet="[" + "; ".join(str(w) for w in al) + "]", fuel=100000,
                describe=f"USBIsochronousStreamOutEndpoint(max_packet_size={mps}, buffer_size={buf}) == endpoint model "
                         f"(boundary detector + admission latch + FIFO) in lock step on all traces over {len(al)} input words "
                         f"(receive side idle / idle+rx_complete / idle+rx_invalid / rx.valid / rx.valid+rx.next, x stream.ready, "
                         f"x token for this / another endpoint{'' if tier == 'quick' else ' / non-OUT token'}, payload bytes "
                         f"{'0xA5/0x5A' if (tier != 'quick' and mps == 1) else '0xA5'}) that keep the "
                         f"environment assumption"))
        obs.append(tie.corr(f"corr_{t.name}", t, mstep=f"io_mstep {mps} {buf} {EP}", m0=f"io_init {buf}",
                            norm="io_normN",
                            describe=f"endpoint model vs simulator at max_packet_size={mps}, buffer_size={buf}: packet scripts with "
                                     f"random sizes/gaps/CRC outcomes/addressing and consumer back-pressure (incl. buffer exactly "
                                     f"max_packet_size short of full), full-width payloads; stream compared while valid"))
        obs.append(tie.cmon(f"spec_{t.name}", t, mon=f"(is_mon {mps} {buf} {EP})", m0="is_mon0",
                            describe=f"the packet-level SPECIFICATION machine (is_next/is_outf) run as an oracle over simulator "
                                     f"traces of the real module at max_packet_size={mps}, buffer_size={buf}: in every cycle that "
                                     f"keeps the environment assumption, stream.valid and (while valid) payload/first/last must "
                                     f"be those of the specification"))
    return obs


def tie_theorems(targets, tier):
    s = ""
    for t in targets:
        if t.big: continue
        mps, buf = t.params["mps"], t.params["buf"]; ob = f"ob_{t.name}"
        s += f"""
Theorem C16_{t.name} : forall tr,
  Forall (fun w => In w {ob}.alpha) tr ->
  is_env_ok {mps} {buf} is_init (map (io_in_of {EP}) tr) = true ->
  map (fun w => io_norm (io_out_of w)) (run {t.modname}.step {t.modname}.init tr)
  = is_run {mps} {buf} is_init (map (io_in_of {EP}) tr).
Proof.
  intros tr H HE.
  rewrite ({ob}_T.tie tr H (io_menv_ok {mps} {buf} {EP} ltac:(lia) tr HE)).
  apply io_packed_refines; [lia | exact HE].
Qed.
"""
    return s


def tie_theorem_names(targets, tier):
    return [f"C16_{t.name}" for t in targets if not t.big]


ASSUMPTIONS = [
    "environment, per cycle on EndpointInterface signals (is_env in Model/IsoOut.v): E0 rx.payload is a byte; E1 the tokenizer "
    "fields that select the endpoint (endpoint, is_out) do not change from the first byte of a packet until its outcome has "
    "been acted upon, two cycles after rx.valid fell (the token detector only changes them at the next token, which is many "
    "cycles away); E2 no byte is presented in the cycle right after a packet ended (C28's assumption; UTMI never asserts RxValid "
    "in the cycle RxActive rises and USBDataPacketReceiver needs the PID and two more bytes before it streams); E3 a packet "
    "addressed to the endpoint ends with exactly one of rx_complete / rx_invalid, seen no later than the cycle in which rx.valid "
    "falls (USBDataPacketReceiver raises packet_complete or crc_mismatch exactly then: C02); E4 a packet addressed to the endpoint "
    "has at most max_packet_size payload bytes (the host honours wMaxPacketSize; longer packets are outside the property)",
    "no assumption on packet sizes 0..max_packet_size, gaps between bytes, corruption, packets for other endpoints, the consumer's "
    "ready pattern or the buffer size; zero-length packets never reach the endpoint logic and contribute nothing",
    "admission rule (reading of 'when buffer space runs out a packet is dropped as a whole', and of the class docstring 'If there "
    "isn't max_packet_size space in the endpoint buffer, additional data will be silently dropped'): a packet is admitted iff at "
    "least max_packet_size entries are free in the cycle in which its first byte reaches the buffer (one cycle after its second "
    "byte, or its end, was seen); free = buffer_size - undelivered entries - 1 if an entry was delivered in the previous cycle",
    "the output stream is compared while stream.valid is high (payload/first/last are don't-care otherwise; the targets expose "
    "them masked by stream.valid through a wrapper in props/C16.py)",
    "the specification oracle (cmon) keeps its state in a bounded encoding and stops judging a trace at the first cycle that "
    "breaks the environment assumption or at any packet, addressed or not, longer than max_packet_size bytes; correspondence "
    "(model vs simulator) has no such limits except that rx_complete and rx_invalid are never generated for the same packet",
    "lock-step tie configurations (max_packet_size, buffer_size): (2,2) quick -- the smallest configuration in which a packet can "
    "be truncated; (1,1) (1,2) (2,2) thorough; explicit input alphabets (see obligation_list; strobes as "
    "USBDataPacketReceiver drives them: not while rx.valid is high, never both); correspondence and specification-oracle runs "
    "additionally at (2,3) (8,23) (64,128) quick / up to (512,1024) thorough, with full-width random payloads; endpoint_number = 1",
    "DEFECT: the unchanged tree violates the property (findings/C16-truncated-packet.json, confirmed on Amaranth's simulator); "
    "the model and specification describe the repaired behaviour (findings/C16-truncated-packet.diff); ./check C16 exits 0 only "
    "with that patch applied",
]
LEVEL_TEXT = ("Machine-checked proof. (1) For every max_packet_size >= 1, every buffer size, every endpoint number and every input "
              "history of any length that keeps the environment assumption, the code-shaped model of USBIsochronousStreamOutEndpoint "
              "(boundary-detector FSM model of C28 + admission latch + pointer/memory FIFO model of C18, bytes written one by one and "
              "rolled back on bad CRC) shows in every cycle exactly stream.valid and, while valid, payload/first/last of the packet-level "
              "specification machine, which only ever appends the complete framed payload (first on the first byte, last on the final "
              "byte) of a CRC-valid, addressed, admitted packet to its output queue [C16_model_refines_spec: simulation relation through "
              "the abstract transactional queue of C18, induction over the history]. (2) For the specification: entries delivered so far "
              "++ entries still queued = concatenation of the framed payloads of the accepted packets, and the accepted packets are, in "
              "order, exactly those CRC-valid addressed packets for which max_packet_size entries were free when their first byte reached "
              "the buffer -- a packet is entirely present or entirely absent, corrupted packets and packets for other endpoints "
              "contribute nothing [C16_whole_packets, C16_accepted_are_good_packets]; with the consumer ready the queue drains "
              "[C16_drains]. (3) For the small tie configurations the netlist regenerated from /repo is proved equal to the model on all "
              "traces over an explicit input alphabet that keep the assumption (certified product reachability), giving "
              "C16_isoout_m<k>_b<n>: netlist output stream = specification. (4) Simulator correspondence and the specification run as "
              "an oracle at realistic sizes.")
LEVEL_NOTE = ("Trusted: Coq kernel + vm_compute, Amaranth elaboration to NIR, nir2coq.py/Netlist.v (validated each run against Amaranth's "
              "simulator). The netlist=model theorems are per configuration (small sizes, endpoint 1) over a finite input alphabet (two "
              "payload byte values); other sizes and full-width data rest on the parametric theorem plus correspondence. The FIFO model "
              "imported from C18 describes a FIFO whose commit is gated by ~discard; the endpoint never asserts both (assumption E3), so "
              "the difference is not exercised. The unchanged tree FAILS this check (genuine defect: a packet arriving when exactly "
              "max_packet_size entries are free is cut to its first byte and committed); it passes with findings/C16-truncated-packet.diff.")
TECHNIQUE = ("Rocq proof: simulation relation between the code-shaped composite model and a packet-level specification machine, reusing "
             "the C28 boundary-detector model and the C18 FIFO refinement theorem (all sizes, unbounded histories) + certified "
             "product-reachability (lock-step, explicit alphabet, environment-constrained) against the netlist regenerated from source + "
             "simulator correspondence and specification oracle at realistic sizes")
