"""C22 -- ULPI receive translation (luna/gateware/interface/ulpi.py: ULPIRxEventDecoder and the
rx_active / rx_valid / rx_data logic of UTMITranslator)."""
import json
from harness.core import Target
from harness import core, tie
from harness import tie_explicit
from props.C23_ulpi_env import build_translator, base_outs, World, closed_loop, IN_NAMES, CTRL_DEFAULT

PID = "C22"
ASSUMPTIONS = [
    "PHY side: NO assumption for the packet / status theorems (every DIR/NXT/DATA history). An RxCmd is a cycle with DIR high in this "
    "and the previous cycle, NXT low, and no register READ in progress (UTMITranslator never issues reads); a receive starts when DIR "
    "rises together with NXT or with an RxCmd whose RxActive bit (4) is set, ends when DIR falls or with an RxCmd whose RxActive bit "
    "is clear; its bytes are DATA in the cycles with DIR and NXT high after the start",
    "UTMI side: DESIGN.md section 3 convention -- a packet is a maximal rx_active run, its bytes are rx_data in the rx_valid cycles of the "
    "run except its first (Handshake.packets_from, the packetiser the packet-consumer proofs C01/C04/... are stated against)",
    "all outputs are registered: the UTMI side lags the PHY side by exactly one cycle",
    "bus turn-around rule (NXT low in the cycle DIR falls) is assumed only for the corollary rx_valid -> rx_active",
    "the model is the property-satisfying behaviour; the unchanged /repo differs (findings/C22-*.json|diff): (a) RxActive raised by an "
    "RxCmd reaches rx_active one cycle too late, a data byte directly following that RxCmd is dropped; (b) RxCmds are ignored while "
    "a register WRITE is pending or in progress (register_operation_in_progress = register_window.busy)",
    "R tie of the translator receive path: explicit input alphabets (see obligation_list); decoder: explicit alphabets",
]
TIE_IMPORTS = "From LunaModel Require Import Handshake UlpiRx UlpiRx_proofs.\n"

D_QUICK = [0x00, 0x10, 0x6F]
D_THOROUGH = [0x00, 0x10, 0x6F, 0xB4]
DEC_DATA = [0x00, 0x10, 0x20, 0x30, 0x0C, 0x08, 0x43, 0x80, 0xFF, 0x5E]


def mk_dec():
    def build():
        from amaranth.hdl.rec import Record
        from luna.gateware.interface.ulpi import ULPIRxEventDecoder
        bus = Record([("data", [("i", 8)]), ("nxt", [("i", 1)]), ("dir", [("i", 1)])])
        d = ULPIRxEventDecoder(ulpi_bus=bus)
        ins = [("data_i", bus.data.i), ("dir", bus.dir.i), ("nxt", bus.nxt.i), ("regop", d.register_operation_in_progress)]
        outs = [("last_rx_command", d.last_rx_command), ("line_state", d.line_state), ("vbus_valid", d.vbus_valid),
                ("session_valid", d.session_valid), ("session_end", d.session_end), ("rx_active", d.rx_active),
                ("rx_error", d.rx_error), ("host_disconnect", d.host_disconnect), ("id_digital", d.id_digital),
                ("rx_start", d.rx_start), ("rx_stop", d.rx_stop)]
        return d, ins, outs
    t = Target("rxdec", build); t.kind = "dec"
    return t


def rx_build():
    m, ins, p = build_translator()
    t = p["t"]
    outs = [("rx_active", t.rx_active), ("rx_valid", t.rx_valid), ("rx_data", t.rx_data), ("line_state", t.line_state),
            ("vbus_valid", t.vbus_valid), ("session_valid", t.session_valid), ("session_end", t.session_end),
            ("rx_error", t.rx_error), ("host_disconnect", t.host_disconnect), ("id_digital", t.id_digital),
            ("last_rx_command", t.last_rx_command)]
    return m, ins, outs


def loop_build():
    m, ins, p = build_translator()
    return m, ins, base_outs(p)


def mk_rx():
    t = Target("utmi_rx", rx_build); t.kind = "rx"
    return t


def targets(tier):
    return [mk_dec(), mk_rx()]


# ---- traces -----------------------------------------------------------------------------------------
def dec_traces(rng, n):
    out = []
    for k in range(n):
        tr = []
        pd = rng.choice([0.2, 0.6, 0.9]); pn = rng.choice([0.1, 0.5]); pr = rng.choice([0.0, 0.0, 0.2])
        d = 0
        for _ in range(rng.randint(5, 120)):
            if rng.random() < (0.15 if d else 0.3): d = int(rng.random() < pd)
            tr.append(dict(data_i=rng.choice(DEC_DATA + [rng.randrange(256)]), dir=d, nxt=int(rng.random() < pn),
                           regop=int(rng.random() < pr)))
        out.append(tr)
    return out


def rx_traces(rng, n):
    worlds, lens = [], []
    for k in range(n):
        w = World(rng, p_rx=rng.choice([0.05, 0.15, 0.3]), p_tx=rng.choice([0.0, 0.03, 0.1]),
                  p_ctrl=rng.choice([0.0, 0.01, 0.05]), abort_cmd=rng.choice([0.0, 0.1, 0.4]), rx_kind="mixed")
        worlds.append(w); lens.append(rng.randint(60, 300))
    trs = closed_loop(loop_build, worlds, lens)
    # fully random PHY behaviour as well (the theorems assume nothing about the PHY)
    for k in range(max(2, n // 4)):
        tr = []; d = 0; c = dict(CTRL_DEFAULT)
        for _ in range(rng.randint(20, 200)):
            if rng.random() < 0.2: d = rng.randrange(2)
            if rng.random() < 0.03: c["term_select"] ^= 1
            cyc = dict(data_i=rng.choice([0x10, 0x00, 0x1D, rng.randrange(256)]), nxt=rng.randrange(2), dir=d,
                       tx_data=rng.randrange(256), tx_valid=int(rng.random() < 0.1))
            cyc.update(c); tr.append(cyc)
        trs.append(tr)
    return trs


_cache = {}


def traces(target, rng, tier):
    if target.kind == "dec":
        return dec_traces(rng, 30 if tier == "quick" else 200)
    trs = rx_traces(rng, 30 if tier == "quick" else 120)
    _cache["rx"] = trs
    return trs


# ---- obligations ------------------------------------------------------------------------------------
def pack_in(**kw):
    c = dict(CTRL_DEFAULT); c.update(data_i=0, nxt=0, dir=0, tx_data=0xC3, tx_valid=0); c.update(kw)
    widths = dict(data_i=8, nxt=1, dir=1, tx_data=8, tx_valid=1, op_mode=2, xcvr_select=2)
    v = 0; sh = 0
    for nme in IN_NAMES:
        w = widths.get(nme, 1)
        v |= (c[nme] & ((1 << w) - 1)) << sh; sh += w
    return v


def rx_alphabet(tier):
    D = D_QUICK if tier == "quick" else D_THOROUGH
    words = set()
    for d in D:
        for nxt in (0, 1):
            for dr in (0, 1):
                for term in (0, 1):
                    for txv in ((0,) if tier == "quick" else (0, 1)):
                        words.add(pack_in(data_i=d, nxt=nxt, dir=dr, term_select=term, tx_valid=txv))
    return "[" + "; ".join(str(x) for x in sorted(words)) + "]", D


def dec_alphabet(data=None):
    words = []
    for d in (data or DEC_DATA):
        for x in range(8):
            words.append(d | (x << 8))
    return "[" + "; ".join(str(x) for x in words) + "]"


def obligations(targets, tier):
    obs = []
    for t in targets:
        if t.kind == "dec":
            common = dict(St="dec_state", mstep="dec_step", enc="dec_enc", dec="dec_dec", wf="dec_wf",
                          dec_enc="dec_dec_enc", wf_step="dec_wf_step", m0="dec_init", wf_m0="vm_compute; reflexivity.")
            if tier == "quick":
                obs.append(tie_explicit.rlock_alpha(
                    "ob_rxdec", t, alphabet=dec_alphabet(), fuel=2000, **common,
                    describe=f"ULPIRxEventDecoder == model, all traces over dir, nxt, register_operation_in_progress in {{0,1}} and "
                             f"data in {[hex(x) for x in DEC_DATA]}"))
            else:
                big = sorted(set(DEC_DATA + [(37 * k + 11) % 256 for k in range(40)]))
                obs.append(tie_explicit.rlock_alpha(
                    "ob_rxdec", t, alphabet=dec_alphabet(big), fuel=2000, **common,
                    describe=f"ULPIRxEventDecoder == model, all traces over dir, nxt, register_operation_in_progress in {{0,1}} and "
                             f"{len(big)} data values"))
        else:
            alpha, D = rx_alphabet(tier)
            obs.append(tie_explicit.rlock_alpha(
                "ob_utmi_rx", t, St="rx_state", mstep="rx_step", enc="rx_enc", dec="rx_dec", wf="rx_wf",
                dec_enc="rx_dec_enc", wf_step="rx_wf_step", m0="rx_init", wf_m0="exact rx_wf_init.",
                alphabet=alpha, fuel=4000,
                describe=f"UTMITranslator receive outputs (rx_active, rx_valid, rx_data, status flags, last_rx_command) == receive-path "
                         f"model, all traces over data.i in {[hex(x) for x in D]}, nxt, dir, term_select"
                         f"{'' if tier == 'quick' else ', tx_valid'} in {{0,1}} (term_select changes start register writes)"))
    return obs


def tie_theorems(targets, tier):
    g = [t for t in targets if t.kind == "rx"][0].modname
    return f"""
Theorem C22_utmi_rx_packets : forall h x, Forall (fun i => In i ob_utmi_rx.alpha) (h ++ [x]) ->
  utmi_packets (run {g}.step {g}.init (h ++ [x])) = phy_packets phy0 h.
Proof.
  intros h x H. rewrite (ob_utmi_rx_T.tie _ H (env_ok_true _ _ _ _)). apply rx_packets.
Qed.

Theorem C22_utmi_rx_status : forall h x, Forall (fun i => In i ob_utmi_rx.alpha) (h ++ [x]) ->
  let o := last (run {g}.step {g}.init (h ++ [x])) 0 in
  o_lastcmd o = phy_last_rxcmd false 0 h /\\ o_status o = rxcmd_status (phy_last_rxcmd false 0 h) /\\
  o_active o = isSome (snd (fold_left phy_next h phy0)).
Proof.
  intros h x H. cbv zeta. rewrite (ob_utmi_rx_T.tie _ H (env_ok_true _ _ _ _)). apply rx_status.
Qed.
"""


def tie_theorem_names(targets, tier):
    return ["C22_utmi_rx_packets", "C22_utmi_rx_status"]


# ---- specification-level runtime oracle + model correspondence on full-range traces --------------------
def correspondence(tier, rng, bdir, cov):
    """Evaluate the SPECIFICATION (not the model) over simulator traces of the real translator:
    utmi_packets(outputs) = phy_packets(inputs) and status = most recent RxCmd (the statements of C22_rx_packets /
    C22_rx_status); then model == implementation cycle by cycle."""
    t = mk_rx(); t.generate(bdir / "oracle")
    trs = _cache.get("rx") or rx_traces(rng, 20)
    outs = t.simulate(trs)
    tin = [[t.pack_in(c) for c in tr] for tr in trs]
    tout = [[t.pack_out(o) for o in ou] for ou in outs]
    hdr = tie.HEADER + TIE_IMPORTS
    defs = ("Definition tin : list (list N) := [" + ";\n ".join(core.nlist(x) for x in tin) + "].\n" +
            "Definition tout : list (list N) := [" + ";\n ".join(core.nlist(x) for x in tout) + "].\n"
            "Fixpoint pkts_eqb (a b : list (list N)) : bool := match a, b with [] , [] => true | x :: a', y :: b' => list_eqb x y && pkts_eqb a' b' | _, _ => false end.\n"
            "Definition chk (p : list N * list N) : N :=\n"
            "  let (i, o) := p in let h := removelast i in\n"
            "  (if pkts_eqb (utmi_packets o) (phy_packets phy0 h) then 0 else 1) +\n"
            "  (if (o_lastcmd (last o 0) =? phy_last_rxcmd false 0 h) && (o_status (last o 0) =? rxcmd_status (phy_last_rxcmd false 0 h)) then 0 else 2) +\n"
            "  (if eqb (o_active (last o 0)) (isSome (snd (fold_left phy_next h phy0))) then 0 else 4).\n"
            "Fixpoint prefixes_bad (k : nat) (i o : list N) : N :=   (* shortest failing prefix length, 0 = none *)\n"
            "  match k with O => 0 | S k' => match prefixes_bad k' i o with 0 => if chk (firstn k i, firstn k o) =? 0 then 0 else N.of_nat k | r => r end end.\n")
    res = core.coq_eval(bdir, "Oracle_C22", hdr, defs,
                        [("codes", "map chk (combine tin tout)"),
                         ("mcodes", "corr_codes rx_step (fun o => o) rx_init tin tout")], extra_dirs=[(bdir, "Run")])
    codes = core.parse_nums(res["codes"]) if res["codes"].strip() != "[]" else []
    cov["correspondence"].append(dict(obligation="oracle_rx_spec", target=t.name, traces=len(tin), cycles=sum(map(len, tin)),
                                      describe="specification oracle: utmi_packets(outputs) = phy_packets(inputs), status = last RxCmd, "
                                               "rx_active = receive in progress, on closed-loop PHY traces + random PHY behaviour (8-bit data, "
                                               "control changes, transmissions)"))
    for k, c in enumerate(codes):
        if c != 0:
            res2 = core.coq_eval(bdir, "OracleD_C22", hdr, defs + f"Definition one_i := {core.nlist(tin[k])}.\nDefinition one_o := {core.nlist(tout[k])}.\n",
                                 [("plen", f"prefixes_bad {len(tin[k])} one_i one_o")], extra_dirs=[(bdir, "Run")])
            n = core.parse_nums(res2["plen"])[0] or len(tin[k])
            what = [s for b, s in ((1, "UTMI packets differ from the packets the PHY presented"),
                                   (2, "status flags / last_rx_command differ from the most recent RxCmd"),
                                   (4, "rx_active differs from 'PHY receive in progress'")) if c & b]
            return dict(property=PID, obligation="oracle_rx_spec", target=t.name, reason="specification violated: " + "; ".join(what),
                        inputs=trs[k][:n], outputs=outs[k][:n], failing_cycle=n - 1, confirmed_on_pysim=True,
                        how="specification (Model/UlpiRx.v: utmi_packets / phy_packets / phy_last_rxcmd) evaluated over a simulator trace of /repo")
    mcodes = core.parse_nums(res["mcodes"]) if res["mcodes"].strip() != "[]" else []
    cov["correspondence"].append(dict(obligation="corr_utmi_rx", target=t.name, traces=len(tin), cycles=sum(map(len, tin)),
                                      describe="receive-path model vs simulator, every cycle, full 8-bit data"))
    for k, c in enumerate(mcodes):
        if c != 0:
            return dict(property=PID, obligation="corr_utmi_rx", target=t.name, nofail=True,
                        reason="correspondence between the receive-path model and the implementation no longer holds",
                        inputs=trs[k][:c], outputs=outs[k][:c], differing_cycle=c - 1)
    return None


LEVEL_TEXT = ("Machine-checked proof. (1) For EVERY DIR/NXT/DATA history (no assumption on the PHY) the receive-path model's UTMI packets "
              "(maximal rx_active runs, bytes at rx_valid except the run's first cycle) are exactly the packets the PHY presented -- same "
              "packets, same order, each byte once; RxCmd bytes, turn-around cycles and bytes outside a receive never appear "
              "(C22_rx_packets); the status flags and last_rx_command equal the fields of the most recent RxCmd and rx_active equals 'PHY "
              "receive in progress', one cycle later (C22_rx_status); with the bus turn-around rule rx_valid implies rx_active "
              "(C22_rx_valid_active). Decoder: last_rx_command = most recent RxCmd outside register operations (C22_decoder_last). "
              "(2) The netlists regenerated from /repo are proved equal to the models on all traces over explicit input alphabets "
              "(translator receive outputs incl. control changes that start register writes; decoder: dir/nxt/register-operation with "
              "10 (quick) / 50 (thorough) data values), giving C22_utmi_rx_packets / C22_utmi_rx_status for the netlist. (3) The specification itself is "
              "evaluated on simulator traces with full 8-bit data. The model is the property-satisfying behaviour: the unchanged /repo "
              "fails (2)/(3) -- see findings/C22-*; with findings/C22-rxcmd-start-and-write-gating.diff applied the check passes.")
LEVEL_NOTE = ("Trusted: Coq kernel + vm_compute, Amaranth elaboration, nir2coq.py/Netlist.v (validated each run against pysim). The R tie of "
              "the translator is per explicit alphabet (3-5 data values covering every RxCmd field both ways); full-range data is covered "
              "by the runtime oracle / correspondence only. rx_error is reported as a flag only (the code does not end a receive on RxError).")
TECHNIQUE = ("Rocq proof: simulation relation between the registered receive path and a PHY-side packetiser / the UTMI packetiser "
             "(Handshake.packets_from), induction over the history; certified product reachability of the regenerated netlists (explicit alphabets)")
