"""C23 -- ULPI transmit translation (luna/gateware/interface/ulpi.py: ULPITransmitTranslator and the
data/stp multiplexing + bus_idle gating of UTMITranslator)."""
from harness.core import Target
from harness import tie
from props.C23_ulpi_env import build_translator, base_outs, World, closed_loop, IN_NAMES, CTRL_DEFAULT

PID = "C23"
ASSUMPTIONS = [
    "PHY contract tx_env (module level): NXT is not raised for a transmit command that is not yet on the bus, i.e. in a cycle in "
    "which the translator offers the command (tx_valid & bus_idle, no packet in progress) NXT may be high only if ulpi_out_req is "
    "already set.  ulpi_out_req is registered, so the command reaches the pins one cycle after the request; a PHY raises NXT at the "
    "earliest one cycle after it has seen the command (ULPI 1.1 3.8.2).  Without it the first byte is lost (Example C23_env_needed)",
    "PHY contract bus_env (pin level): outside a transaction NXT with DIR low answers a command byte on the bus; DIR is not raised "
    "between the acknowledgement of a transmit command and its STP (a PHY-aborted transmit is outside the property)",
    "UTMI discipline utmi_ok (packet-level reading only): op_mode is constant from the first tx_valid cycle of a transmission up to "
    "and including the cycle in which tx_valid falls; a transmission without bit stuffing is not abandoned before its first byte "
    "was accepted.  The cycle-level contract needs neither",
    "tx_ready while tx_valid = 0 is unspecified (no byte is on offer); ulpi_out_req between a withdrawn request and the next "
    "request/packet is unspecified (the code keeps it latched -- this is the root of the C24 deadlock and is reported there)",
    "pin-level R obligations: explicit input alphabets (tx_data in {0xC3, 0x5A}, data.i = 0); rm_pins_m*: control inputs constant "
    "(register-write traffic only from reset); rm_pins_ctl: term_select free in every cycle (register writes start, and their cause "
    "is reverted, at every offset relative to tx_valid), other control inputs constant; the same monitors are also evaluated as runtime oracle on closed-loop PHY traces with 8-bit random data",
]
TIE_IMPORTS = "From LunaModel Require Import UlpiTx UlpiTx_proofs.\n"

TX_INS = ["tx_data", "tx_valid", "op_mode", "bus_idle", "nxt"]


def mk_module():
    def build():
        from luna.gateware.interface.ulpi import ULPITransmitTranslator
        d = ULPITransmitTranslator()
        return d, [("tx_data", d.tx_data), ("tx_valid", d.tx_valid), ("op_mode", d.op_mode), ("bus_idle", d.bus_idle),
                   ("nxt", d.ulpi_nxt)], \
            [("tx_ready", d.tx_ready), ("out_req", d.ulpi_out_req), ("data_out", d.ulpi_data_out), ("stp", d.ulpi_stp),
             ("busy", d.busy)]
    t = Target("ulpitx", build); t.kind = "module"
    return t


def translator_build():
    m, ins, p = build_translator()
    tt, rw, ct, t = p["tt"], p["rw"], p["ct"], p["t"]
    outs = base_outs(p) + [("bus_idle", tt.bus_idle), ("out_req", tt.ulpi_out_req), ("tt_data", tt.ulpi_data_out),
                           ("tt_stp", tt.ulpi_stp), ("tt_busy", tt.busy), ("rw_data", rw.ulpi_data_out),
                           ("rw_stop", rw.ulpi_stop), ("rw_busy", rw.busy), ("ct_busy", ct.busy), ("busy", t.busy)]
    return m, ins, outs


def mk_translator(name, kind):
    t = Target(name, translator_build); t.kind = kind
    return t


def targets(tier):
    return [mk_module(), mk_translator("utmi_tx", "pins")]


# ---- traces -----------------------------------------------------------------------------------------
def module_traces(rng, n):
    """stand-alone module: a UTMI transmitter + PHY acknowledging with random delays/throttling, bus_idle dropping at
    random (RX / register traffic), plus fully random cycles."""
    out = []
    for k in range(n):
        tr = []
        mode = rng.choice([0, 0, 2, 1, 3])
        if k % 5 == 4:
            for _ in range(rng.randint(5, 80)):
                tr.append(dict(tx_data=rng.randrange(256), tx_valid=rng.randrange(2), op_mode=rng.randrange(4),
                               bus_idle=rng.randrange(2), nxt=rng.randrange(2)))
            out.append(tr); continue
        pbusy = rng.choice([0.0, 0.05, 0.3]); thr = rng.choice([1.0, 0.6, 0.25])
        for _ in range(rng.randint(1, 5)):
            for _ in range(rng.randint(0, 4)):
                tr.append(dict(tx_data=rng.randrange(256), tx_valid=0, op_mode=mode, bus_idle=int(rng.random() >= pbusy), nxt=0))
            pkt = [rng.randrange(256) for _ in range(rng.choice([1, 1, 2, 3, 8]))]
            i = 0; state = "req"; wait = rng.choice([0, 1, 1, 3]); shown = False
            while i < len(pkt) and len(tr) < 400:
                idle = int(state == "tx" or rng.random() >= pbusy)
                if state == "req":
                    nxt = int(shown and idle and wait == 0)
                    if shown and idle and wait > 0: wait -= 1
                    tr.append(dict(tx_data=pkt[i], tx_valid=1, op_mode=mode, bus_idle=idle, nxt=nxt))
                    if idle: shown = True
                    if nxt:
                        state = "tx"
                        if mode != 2: i += 1
                else:
                    nxt = int(rng.random() < thr)
                    tr.append(dict(tx_data=pkt[i], tx_valid=1, op_mode=mode, bus_idle=idle, nxt=nxt))
                    if nxt: i += 1
            tr.append(dict(tx_data=rng.randrange(256), tx_valid=0, op_mode=mode, bus_idle=1, nxt=rng.randrange(2)))
            if rng.random() < 0.3:   # back-to-back request right after STP
                continue
        tr += [dict(tx_data=0, tx_valid=0, op_mode=mode, bus_idle=1, nxt=0)] * 2
        out.append(tr)
    return out


def translator_traces(target, rng, n):
    worlds, lens = [], []
    for k in range(n):
        mode = 2 if k % 3 == 2 else 0
        ctrl = dict(op_mode=mode)
        if k % 4 == 1:
            ctrl.update(use_external_vbus_indicator=0)          # no register write at all
        w = World(rng, p_rx=rng.choice([0.0, 0.02, 0.06]), p_tx=rng.choice([0.03, 0.1, 0.3]), ctrl=ctrl,
                  rx_kind="mixed")
        worlds.append(w); lens.append(rng.randint(60, 260))
    # register-write traffic under the transmissions: every register-backed control input changes at random offsets
    # relative to tx_valid, is often changed BACK 1..8 cycles later (while its write is still in START_WRITE / on the bus:
    # the PHY answers commands after 0..5 cycles and interrupts them with DIR), and a transmission is requested 0..8
    # cycles after the change / the revert
    for k in range(n):
        w = World(rng, p_rx=rng.choice([0.0, 0.02, 0.05]), p_tx=rng.choice([0.02, 0.08, 0.2]),
                  p_ctrl=rng.choice([0.03, 0.08, 0.2]), p_revert=rng.choice([0.4, 0.8]), p_tx_after=rng.choice([0.5, 0.9]),
                  nxt_delay=rng.choice([(0, 1, 2, 3), (2, 3, 5), (0, 0, 1)]), abort_cmd=rng.choice([0.0, 0.05, 0.2]),
                  rx_kind="mixed", tx_len=(1, 2, 3, 7))
        if k % 3 == 0:
            w.ctrl_fields = ["op_mode", "term_select", "dp_pulldown"]
        worlds.append(w); lens.append(rng.randint(120, 320))
    trs = closed_loop(target.build, worlds, lens)
    return trs


def traces(target, rng, tier):
    n = 40 if tier == "quick" else 300
    if target.kind == "module":
        return module_traces(rng, n)
    return translator_traces(target, rng, 30 if tier == "quick" else 200)


# ---- obligations ------------------------------------------------------------------------------------
def pack_in(**kw):
    c = dict(CTRL_DEFAULT); c.update(data_i=0, nxt=0, dir=0, tx_data=0, tx_valid=0); c.update(kw)
    widths = dict(data_i=8, nxt=1, dir=1, tx_data=8, tx_valid=1, op_mode=2, xcvr_select=2)
    v = 0; sh = 0
    for nme in IN_NAMES:
        w = widths.get(nme, 1)
        v |= (c[nme] & ((1 << w) - 1)) << sh; sh += w
    return v


def alphabet(mode, extvbus, terms=(0,), datas=(0xC3, 0x5A)):
    words = []
    for nxt in (0, 1):
        for d in (0, 1):
            for v in (0, 1):
                for b in datas:
                    for term in terms:
                        words.append(pack_in(nxt=nxt, dir=d, tx_valid=v, tx_data=b, op_mode=mode, term_select=term,
                                             use_external_vbus_indicator=extvbus))
    return "[" + "; ".join(str(x) for x in sorted(set(words))) + "]"


def obligations(targets, tier):
    obs = []
    for t in targets:
        if t.kind == "module":
            obs.append(tie.rlock(
                "ob_ulpitx", t, St="tx_state", mstep="tx_step", enc="tx_enc", dec="tx_dec",
                wf="(fun _ => True)", dec_enc="(fun s _ => tx_dec_enc s)", wf_step="(fun _ _ _ => I)",
                m0="tx_init", wf_m0="exact I.", alpha_bits=13, fuel=100,
                describe="ULPITransmitTranslator == FSM model, all traces over all 2^13 input words "
                         "(tx_data, tx_valid, op_mode, bus_idle, nxt), no environment assumption"))
        else:
            for mode, ext in ((0, 1), (2, 1), (0, 0)):
                obs.append(tie.rmon(
                    f"rm_pins_m{mode}_v{ext}", t, mon="bus_mon", m0="0", alpha_bits=0, alphabet=alphabet(mode, ext), fuel=4000,
                    describe=f"UTMITranslator pins vs UTMI transmit port: pin-level contract bus_mon (PHY's view of DIR/NXT/DATA/STP) holds on "
                             f"every trace over nxt, dir, tx_valid in {{0,1}}, tx_data in {{0xC3,0x5A}}, op_mode={mode} constant, "
                             f"use_external_vbus_indicator={ext} (register write from reset: {'yes' if ext or mode else 'no'})"))
            obs.append(tie.rmon(
                "rm_pins_ctl", t, mon="bus_mon", m0="0", alpha_bits=0, alphabet=alphabet(0, 0, terms=(0, 1), datas=(0xC3,)), fuel=6000,
                describe="UTMITranslator pins vs UTMI transmit port with register-write traffic: pin-level contract bus_mon on every trace over "
                         "nxt, dir, tx_valid, term_select in {0,1} (term_select changes -- and changes back -- at any cycle start Function "
                         "Control writes under / next to the transmissions; bus_idle comes from the real control translator): a byte is "
                         "reported accepted only when the PHY takes it as part of a transmit, never while the PHY or a register write owns the bus"))
            obs.append(tie.cmon("cm_txpath", t, mon="txp_mon", m0="0",
                                describe="module-level contract tx_ok on the transmit translator inside UTMITranslator + output mux "
                                         "(data.o/stp from the transmitter iff out_req, data.oe = ~dir)"))
    return obs


def tie_theorems(targets, tier):
    g = [t for t in targets if t.kind == "module"][0].modname
    return f"""
Theorem C23_ulpitx_contract : forall tr, Forall (fun i => i < 2 ^ N.of_nat 13) tr ->
  tx_accepts txg0 (map tx_view (ios {g}.step {g}.init tr)) = true.
Proof.
  intros tr H. unfold ios. rewrite (ob_ulpitx_T.tie tr H (env_ok_true _ _ _ _)). apply tx_model_accepts.
Qed.

Theorem C23_ulpitx_packets : forall tr, Forall (fun i => i < 2 ^ N.of_nat 13) tr ->
  let cs := map tx_view (ios {g}.step {g}.init tr) in
  tx_env_all txg0 cs = true -> utmi_ok None cs = true ->
  phy_tx None cs = flat_map wire (utmi_tx None cs).
Proof.
  intros tr H. unfold ios. rewrite (ob_ulpitx_T.tie tr H (env_ok_true _ _ _ _)). apply tx_model_packets.
Qed.
"""


def tie_theorem_names(targets, tier):
    return ["C23_ulpitx_contract", "C23_ulpitx_packets"]


LEVEL_TEXT = ("Machine-checked proof. (1) For every input history the FSM model of ULPITransmitTranslator satisfies the cycle-level contract "
              "tx_ok under the PHY assumption tx_env (C23_model_meets_contract): transmit command TXCMD|PID (NOPID without bit stuffing) "
              "offered exactly while requested with the bus available, tx_valid&tx_ready exactly in the cycles the PHY takes the byte, "
              "tx_data passed through, STP in exactly the first cycle with tx_valid low with 0xFF iff bit stuffing is off. "
              "(2) Any cycle sequence satisfying the contract has PHY-received packets = wire(UTMI transmissions), packet by packet, in "
              "order, nothing else (C23_contract_gives_packets; assumes op_mode stable within a transmission). "
              "(3) The netlist of the real ULPITransmitTranslator regenerated from /repo equals the model on all traces over all 2^13 input "
              "words (certified product reachability), giving C23_ulpitx_contract / C23_ulpitx_packets for the netlist. "
              "(4) At the pins of UTMITranslator (mux, bus_idle gating, data.oe = ~dir) the PHY-view contract bus_mon is proved for all traces "
              "over explicit input alphabets -- constant control inputs, and term_select changing freely so that register writes overlap the "
              "transmit requests at every offset (certified reachability of the regenerated translator netlist) -- "
              "and checked as a runtime oracle on closed-loop PHY traces with full 8-bit data.")
LEVEL_NOTE = ("Trusted: Coq kernel + vm_compute, Amaranth elaboration, nir2coq.py/Netlist.v (validated each run against pysim). "
              "The pin-level theorems (4) are per alphabet (tx_data in {0xC3,0x5A}, data.i = 0; one free control bit); all control bits change "
              "(incl. change-and-revert during the write) only in the runtime-oracle traces. PHY-aborted transmissions (DIR raised "
              "between TXCMD acknowledgement and STP) are outside the property.")
TECHNIQUE = ("Rocq proof: invariant between the FSM model and a ghost PHY state (cycle contract), simulation between PHY-side and "
             "UTMI-side packet decoders (packet reading), certified product reachability of the regenerated netlists (module: lock-step "
             "over all inputs; translator pins: monitor over an explicit alphabet)")
