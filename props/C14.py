"""C14 -- data toggles advance only on success and reset on CLEAR_FEATURE(ENDPOINT_HALT):
USBStreamInEndpoint / USBInTransferManager (usb2/endpoints/stream.py, usb2/transfer.py), USBStreamOutEndpoint
(usb2/endpoints/stream.py) and the clear_endpoint_halt decode of StandardRequestHandler (usb/request/standard.py)."""
import sys
from harness.core import Target
from harness.slice import SlicedTarget
from harness import tie, tie_explicit
from props import C11 as IN          # the IN-endpoint target, host script and lock-step builder are shared with C11

PID = "C14"
TIE_IMPORTS = ("From LunaLib Require Import ReachDep C11Reach.\n"
               "From LunaModel Require Import InXfer InXfer_proofs DataToggle DataToggle_proofs.\n")


# ---------------------------------------------------------------------------------------------------
# targets
def find_signal(m, name):
    """the Signal called `name` that is assigned somewhere in the (already elaborated) Module m"""
    from amaranth.hdl import _ast
    found = []
    def walk(stmts):
        for st in stmts:
            if isinstance(st, _ast.Assign):
                for sig in st.lhs._lhs_signals():
                    if sig.name == name and all(sig is not f for f in found):
                        found.append(sig)
            elif isinstance(st, _ast.Switch):
                for case in st.cases:
                    walk(case[1])
    for dom, stmts in m._statements.items():
        walk(stmts)
    if len(found) != 1:
        raise RuntimeError(f"expected exactly one signal named {name}, found {found}")
    return found[0]


def mk_out(mps, buf, ep, role):
    def build():
        from amaranth import Elaboratable
        from luna.gateware.usb.usb2.endpoints.stream import USBStreamOutEndpoint

        class Pre(Elaboratable):          # hands the module elaborated below to the tool chain unchanged
            def __init__(self, m): self.m = m
            def elaborate(self, platform): return self.m
        d = USBStreamOutEndpoint(endpoint_number=ep, max_packet_size=mps, buffer_size=buf)
        m = d.elaborate(None)
        tog = find_signal(m, "expected_data_toggle")       # local Signal of elaborate(): exported as an output port
        i = d.interface; tk = i.tokenizer
        ins = [("is_out", tk.is_out), ("is_ping", tk.is_ping), ("tok_rfr", tk.ready_for_response),
               ("rx_rfr", i.rx_ready_for_response), ("rx_complete", i.rx_complete), ("rx_invalid", i.rx_invalid),
               ("rx_valid", i.rx.valid), ("rx_next", i.rx.next), ("stream_ready", d.stream.ready),
               ("rx_pid", i.rx_pid_toggle), ("endpoint", tk.endpoint),
               ("clear_halt", i.clear_endpoint_halt_in.as_value()), ("rx_payload", i.rx.payload)]
        outs = [("ack", i.handshakes_out.ack), ("nak", i.handshakes_out.nak), ("toggle", tog)]
        return Pre(m), ins, outs
    t = SlicedTarget(f"sout_m{mps}_b{buf}_e{ep}", build)
    t.params = dict(mps=mps, buf=buf, ep=ep); t.role = role; t.kind = "out"; t.alevel = "small"
    return t


def mk_std():
    def build():
        from usb_protocol.emitters import DeviceDescriptorCollection
        from luna.gateware.usb.request.standard import StandardRequestHandler
        d = DeviceDescriptorCollection()
        with d.DeviceDescriptor() as dd:
            dd.idVendor = 0x1209; dd.idProduct = 0x0001; dd.iManufacturer = "M"; dd.iProduct = "P"
            dd.bNumConfigurations = 1
        with d.ConfigurationDescriptor() as c:
            with c.InterfaceDescriptor() as ifc:
                ifc.bInterfaceNumber = 0
                with ifc.EndpointDescriptor() as e:
                    e.bEndpointAddress = 0x81; e.wMaxPacketSize = 64
        h = StandardRequestHandler(d, max_packet_size=64, avoid_blockram=False)
        i = h.interface; s = i.setup
        ins = [("received", s.received), ("ack", i.handshakes_in.ack), ("status_requested", i.status_requested),
               ("data_requested", i.data_requested), ("tx_ready", i.tx.ready), ("is_in_request", s.is_in_request),
               ("type", s.type), ("recipient", s.recipient), ("request", s.request), ("value", s.value),
               ("index", s.index), ("length", s.length)]
        outs = [("clear_halt", i.clear_endpoint_halt.as_value()), ("stall", i.handshakes_out.stall),
                ("tx_valid", i.tx.valid)]
        return h, ins, outs
    t = SlicedTarget("stdreq", build)
    t.params = {}; t.role = "r"; t.kind = "std"
    return t


def mk_in(prefix, mps, ep, role):
    t = IN.mk_target(prefix, mps, ep, role); t.kind = "in"
    return t


def targets(tier):
    if tier == "quick":
        ts = [mk_in("tin", 2, 1, "r"), mk_in("cin", 64, 15, "corr"),
              mk_out(1, 1, 1, "r"), mk_out(64, 127, 2, "corr"), mk_std()]
        ts[0].rcfg = (False, [165], "[false]")
    else:
        ts = [mk_in("tin", 2, 1, "r"), mk_in("tin", 3, 2, "r"), mk_in("cin", 8, 3, "corr"), mk_in("cin", 64, 15, "corr"),
              mk_in("cin", 512, 1, "corr"),
              mk_out(1, 1, 1, "r"), mk_out(1, 2, 3, "r"), mk_out(2, 3, 1, "r"), mk_out(8, 15, 1, "corr"),
              mk_out(64, 127, 2, "corr"), mk_out(512, 1023, 5, "corr"), mk_std()]
        ts[0].rcfg = (True, [165], "[false; true]")
        ts[1].rcfg = (False, [165], "[false]")
        ts[5].alevel = "full"
    return ts


# ---------------------------------------------------------------------------------------------------
# traces
def out_traces(target, rng, tier):
    """OUT / PING transactions to this and other endpoints: data PIDs matching or repeating the toggle, good and
    corrupt packets, slow consumers (NAK on full), ClearFeature(ENDPOINT_HALT) strobes between transactions."""
    mps, ep = target.params["mps"], target.params["ep"]
    n = 12 if tier == "quick" else 30
    out = []
    for k in range(n):
        tr = []
        p_ready = rng.choice([0.05, 0.3, 0.9])
        pid = 0
        def cyc(**kw):
            c = dict(is_out=0, is_ping=0, tok_rfr=0, rx_rfr=0, rx_complete=0, rx_invalid=0, rx_valid=0, rx_next=0,
                     stream_ready=int(rng.random() < p_ready), rx_pid=0, endpoint=ep, clear_halt=0, rx_payload=0)
            c.update(kw); return c
        if k % 6 == 5:          # unstructured
            for _ in range(rng.randint(20, 200)):
                io = rng.choice([(1, 0), (0, 1), (0, 0)])
                tr.append(cyc(is_out=io[0], is_ping=io[1], tok_rfr=rng.randrange(2), rx_rfr=int(rng.random() < 0.3),
                              rx_complete=int(rng.random() < 0.2), rx_invalid=int(rng.random() < 0.1),
                              rx_valid=rng.randrange(2), rx_next=rng.randrange(2), rx_pid=rng.randrange(4),
                              endpoint=rng.choice([ep, ep, rng.randrange(16)]),
                              clear_halt=rng.choice([0, 0, 0, rng.randrange(64)]), rx_payload=rng.randrange(256)))
            out.append(tr); continue
        for _ in range(rng.randint(3, 14)):
            for _ in range(rng.randint(0, 3)): tr.append(cyc())
            r = rng.random()
            if r < 0.12:        # clear halt between transactions
                tr.append(cyc(clear_halt=IN.clr_word(1, rng.choice([0, 0, 0, 1]), rng.choice([ep, ep, ep, (ep + 3) % 16]))))
                if tr[-1]["clear_halt"] == IN.clr_word(1, 0, ep): pid = 0
                continue
            e = ep if rng.random() < 0.85 else (ep + 1 + rng.randrange(15)) % 16
            if r < 0.25:        # PING
                tr.append(cyc(is_ping=1, endpoint=e)); tr.append(cyc(is_ping=1, endpoint=e, tok_rfr=1)); continue
            # OUT transaction
            p = pid if rng.random() < 0.7 else rng.choice([1 - pid, 1 - pid, 2])
            ln = rng.choice([0, 1, mps - 1, mps, mps, rng.randint(0, mps)])
            tr.append(cyc(is_out=1, endpoint=e, rx_pid=p))
            for b in range(max(ln, 0)):
                tr.append(cyc(is_out=1, endpoint=e, rx_pid=p, rx_valid=1, rx_next=1, rx_payload=rng.randrange(256)))
                if rng.random() < 0.3: tr.append(cyc(is_out=1, endpoint=e, rx_pid=p, rx_valid=1))
            good = rng.random() < 0.85
            tr.append(cyc(is_out=1, endpoint=e, rx_pid=p, rx_complete=int(good), rx_invalid=int(not good)))
            if good:
                for _ in range(rng.randint(1, 3)): tr.append(cyc(is_out=1, endpoint=e, rx_pid=p))
                tr.append(cyc(is_out=1, endpoint=e, rx_pid=p, rx_rfr=1))
                if e == ep and p == pid and rng.random() < 0.8:
                    pid ^= 1      # the host advances when it expects an ACK (it may be wrong: NAK -- that is fine)
        out.append(tr)
    return out


STD_INDEX = [0x0000, 0x0081, 0x000F, 0x0080, 0x008F, 0xFF7A, 0x0105]


def std_traces(target, rng, tier):
    n = 10 if tier == "quick" else 40
    out = []
    for k in range(n):
        tr = []
        idx = 0
        for _ in range(rng.randint(2, 10)):
            idx = rng.choice(STD_INDEX) if rng.random() < 0.7 else rng.randrange(65536)
            base = dict(type=0, recipient=2, request=1, value=0, index=idx, length=0, is_in_request=0)
            r = rng.random()
            if r < 0.15: base["value"] = 1                      # another feature selector
            elif r < 0.3: base["recipient"] = rng.choice([0, 1])  # not an endpoint
            elif r < 0.45: base["request"] = rng.choice([0, 3, 5, 9, 8])
            elif r < 0.5: base["type"] = rng.choice([1, 2])
            def cyc(**kw):
                c = dict(received=0, ack=0, status_requested=0, data_requested=0, tx_ready=rng.randrange(2))
                c.update(base); c.update(kw); return c
            for _ in range(rng.randint(0, 3)): tr.append(cyc())
            tr.append(cyc(received=1, ack=int(rng.random() < 0.1)))
            if rng.random() < 0.15: tr.append(cyc(received=1, ack=int(rng.random() < 0.3)))     # SETUP repeated
            for _ in range(rng.randint(0, 3)): tr.append(cyc(ack=int(rng.random() < 0.1)))
            tr.append(cyc(status_requested=1))
            for _ in range(rng.randint(0, 3)): tr.append(cyc())
            if rng.random() < 0.8: tr.append(cyc(ack=1))
        if k % 4 == 3:      # unstructured
            for _ in range(30):
                tr.append(dict(received=rng.randrange(2), ack=rng.randrange(2), status_requested=rng.randrange(2),
                               data_requested=rng.randrange(2), tx_ready=rng.randrange(2), is_in_request=rng.randrange(2),
                               type=rng.choice([0, 0, 1, 2]), recipient=rng.randrange(4), request=rng.choice([0, 1, 5, 6, 8, 9, 3]),
                               value=rng.choice([0, 1, 0x100, 0x200, 0x301]), index=rng.randrange(65536), length=rng.choice([0, 2, 18, 64])))
        out.append(tr)
    return out


def traces(target, rng, tier):
    if target.kind == "out":
        return out_traces(target, rng, tier)
    if target.kind == "std":
        return std_traces(target, rng, tier)
    mps = target.params["mps"]
    n = (10 if mps <= 16 else 6) if tier == "quick" else (24 if mps <= 16 else 12)
    base = 160 + 14 * min(mps, 64)
    out = []
    for k in range(n):
        if k % 5 == 4:
            tr = IN.noise_trace(target, rng, rng.randint(20, 150))
            for c in tr:
                if rng.random() < 0.1: c["clear_halt"] = rng.randrange(64)
            out.append(tr); continue
        out.append(IN.host_script(target, rng, rng.randint(base // 2, base), clear_halt=True,
                                  p_valid=rng.choice([0.15, 0.5, 0.9]), p_ready=rng.choice([0.4, 0.8, 1.0]),
                                  p_rcv=rng.choice([0.6, 0.9, 1.0]), p_ack=rng.choice([0.5, 0.8, 1.0]),
                                  p_flush=rng.choice([0.0, 0.03, 0.2]), poll_gap=rng.choice([(0, 2), (0, 4), (3, 12)])))
    return out


# ---------------------------------------------------------------------------------------------------
# obligations
def out_alphabet(ep, level):
    """explicit input alphabet of the OUT-endpoint tie (a Coq list expression)"""
    tok = [(1, 0, 0, 0), (1, 0, 0, 1), (0, 1, 0, 0), (0, 1, 1, 0), (0, 0, 0, 0)]       # is_out is_ping tok_rfr rx_rfr
    rx = [(0, 0, 0, 0), (1, 1, 0, 0), (0, 0, 1, 0), (0, 0, 0, 1)]                       # valid next complete invalid
    pids = [0, 1]
    clrs = [0, IN.clr_word(1, 0, ep), IN.clr_word(1, 1, ep)]
    if level == "full":
        tok += [(1, 0, 1, 1)]
        rx += [(1, 0, 0, 0), (1, 1, 1, 0)]
        pids += [2]
        clrs += [IN.clr_word(1, 0, ep ^ 2)]
    def word(io, ip, tr_, rr, v, nx, co, inv, p, e, c, sr):
        return (io | ip << 1 | tr_ << 2 | rr << 3 | co << 4 | inv << 5 | v << 6 | nx << 7 | sr << 8 | p << 9 | e << 11 | c << 15)
    words = []
    for (io, ip, tr_, rr) in tok:
        for (v, nx, co, inv) in rx:
            for p in pids:
                for c in clrs:
                    for sr in (0, 1):
                        words.append(word(io, ip, tr_, rr, v, nx, co, inv, p, ep, c, sr))
        # the same token kinds addressed to another endpoint
        for (v, nx, co, inv) in rx[:3]:
            words.append(word(io, ip, tr_, rr, v, nx, co, inv, 0, ep ^ 1, 0, 1))
    return "[" + "; ".join(str(w) for w in words) + "]", len(words)


def std_alphabet(tier):
    """all 32 control-strobe combinations x setup.type x request x recipient x feature selector x wIndex values"""
    words = []
    idxs = STD_INDEX[:4] if tier == "quick" else STD_INDEX
    types = [0, 2] if tier != "quick" else [0]
    reqs = [1, 0] if tier == "quick" else [1, 0, 5, 3]          # CLEAR_FEATURE, GET_STATUS, SET_ADDRESS, SET_FEATURE
    for ctl in range(32):
        for ty in types:
            for rq in reqs:
                for rc in (2, 0):
                    for val in (0, 1):
                        for idx in idxs:
                            words.append(ctl | ty << 6 | rc << 8 | rq << 13 | val << 21 | idx << 37)
    return "[" + "; ".join(str(w) for w in words) + "]", len(words)


def obligations(targets, tier):
    obs = []
    for t in targets:
        if t.kind == "in":
            mps, ep = t.params["mps"], t.params["ep"]
            desc = f"USBStreamInEndpoint(endpoint_number={ep}, max_packet_size={mps})"
            if t.role == "r":
                full, vals, irrs = t.rcfg
                clrs = [0, IN.clr_word(1, 1, ep), IN.clr_word(1, 0, ep)] + ([IN.clr_word(1, 1, ep ^ 1)] if full else [])
                obs.append(IN.rlock_fast(
                    f"ob_{t.name}", t, mps=mps, ep=ep, toks=IN.coq_toks(ep, full), vals="[" + "; ".join(map(str, vals)) + "]",
                    clrs="[" + "; ".join(map(str, clrs)) + "]", irrs=irrs, gnorm="noplN",
                    mstep=f"ix_mstep_t {mps}%nat {ep}", wf_step=f"ix_wf_step_t {mps}%nat {ep}",
                    describe=desc + " == model in lock step (all outputs but tx.payload) on all traces over the state-dependent "
                             f"alphabet incl. clear_endpoint_halt_in words {clrs} (none / this IN endpoint / same number, OUT direction"
                             + (" / other number" if full else "") + ")"))
            obs.append(tie.cmon(f"spec_{t.name}", t, mon=f"(c14i_monN {ep})", m0="(tg_enc tg_init)",
                                describe=desc + ": the IN toggle rule (advance on ACK of the outstanding packet, DATA0 after a matching "
                                                "clear-halt, unchanged otherwise; every transmission carries it) over simulator traces"))
        elif t.kind == "out":
            mps, buf, ep = t.params["mps"], t.params["buf"], t.params["ep"]
            desc = f"USBStreamOutEndpoint(endpoint_number={ep}, max_packet_size={mps}, buffer_size={buf})"
            if t.role == "r":
                al, n = out_alphabet(ep, t.alevel)
                obs.append(tie.rmon(f"ob_{t.name}", t, mon=f"(c14o_mon {ep})", m0="0", alpha_bits=0, alphabet=al, fuel=200000,
                                    describe=desc + f": expected_data_toggle follows the OUT toggle rule on all traces (any length) over "
                                                    f"{n} input words (token kinds, receive strobes, data PIDs, endpoint {ep}/{ep ^ 1}, "
                                                    f"clear-halt words, consumer ready); cone of influence of (ack, nak, toggle)"))
            else:
                obs.append(tie.cmon(f"spec_{t.name}", t, mon=f"(c14o_mon {ep})", m0="0",
                                    describe=desc + ": the OUT toggle rule over simulator traces (full-range inputs)"))
        else:
            al, n = std_alphabet(tier)
            obs.append(tie.rmon(f"ob_{t.name}", t, mon="c14d_mon", m0="0", alpha_bits=0, alphabet=al, fuel=200000,
                                describe=f"StandardRequestHandler: clear_endpoint_halt strobe = host ACK while the latest SETUP is a pending "
                                         f"CLEAR_FEATURE(ENDPOINT_HALT, endpoint), direction = wIndex[7], number = wIndex[3:0], no strobe "
                                         f"otherwise; all traces over {n} input words (all 32 control-strobe combinations x request kinds "
                                         f"x recipient x feature selector x wIndex values" + ("" if tier == "quick" else " x setup.type") + ")"))
    return obs


def tie_theorems(targets, tier):
    s = ""
    for t in targets:
        if t.kind == "in" and t.role == "r":
            mps, ep = t.params["mps"], t.params["ep"]
            s += f"""
Theorem C14_{t.name} : forall tr,
  alpha_ok ix_state ob_{t.name}.mstep ob_{t.name}.alpha (ix_init {mps}%nat) tr = true ->
  c14i_check {ep} tg_init
    (combine (map ix_in_of tr) (map ix_out_of (map noplN (run {t.modname}.step {t.modname}.init tr)))) = true.
Proof. intros tr H. change noplN with ob_{t.name}.gnorm. rewrite (ob_{t.name}_T.tie tr H). apply in_toggle_packed_t. Qed.
"""
    return s


def tie_theorem_names(targets, tier):
    return [f"C14_{t.name}" for t in targets if t.kind == "in" and t.role == "r"]


ASSUMPTIONS = [
    "DEFECT found by this check, repaired in /repo by commit 3b70630 (findings/C14-in-reset-lost-on-packet-ready.json/.diff): in "
    "USBInTransferManager a reset_sequence strobe (ClearFeature(ENDPOINT_HALT) for this IN endpoint) that arrived in the cycle in which "
    "WAIT_FOR_DATA queues a packet was overridden by the swap's `data_pid[0].eq(~data_pid[0])`; the first packet after the clear-halt then "
    "carried DATA1 (or whatever follows the old toggle) instead of DATA0.  Model and ties use the repaired behaviour; the behaviour as "
    "found is refuted in Properties/C14.v (C14_unfixed_violates)",
    "IN endpoints, environment: ACK and new_token strobes never coincide; the clear_endpoint_halt strobe naming this endpoint arrives "
    "only while none of its packets is on the wire or awaiting its handshake (it is produced at the ACK of the control transfer's "
    "status stage, which a token for endpoint 0 precedes).  Outside this assumption the module can lose the reset "
    "(SEND_PACKET / WAIT_FOR_ACK set data_pid to 1, an ACK in the same cycle overrides it)",
    "IN success event = host ACK while a completed packet's handshake is outstanding; `discard` tied to 0 (discard un-does the "
    "anticipatory toggle; not part of the property)",
    "OUT endpoints: the expected_data_toggle Signal is local to elaborate(); the harness elaborates the module itself, finds the Signal "
    "by name and exports it as an output port (no change to /repo).  Environment: a token is OUT or PING, not both.  Proved per tie "
    "configuration (max_packet_size, buffer_size) in {(1,1)} (thorough: (1,1), (1,2), (2,3)) on the cone of influence of (ack, nak, "
    "toggle), over an explicit input alphabet; realistic sizes by the same monitor on simulator traces.  No parametric model of the "
    "OUT endpoint is proved here",
    "decode (StandardRequestHandler, as repaired by the C07/C10 fixes: every SETUP re-dispatches from any state; CLEAR_FEATURE with "
    "another selector or recipient goes to UNHANDLED): no environment assumption; the tie alphabet covers all 32 control-strobe "
    "combinations, CLEAR_FEATURE / GET_STATUS (thorough: + SET_ADDRESS, SET_FEATURE, non-standard type), recipient endpoint/device, "
    "selector 0/1 and 4-7 wIndex values; GET_DESCRIPTOR requests only on simulator traces.  Robustness remark (within the rule as "
    "stated): 'host ACK' is any handshakes_in.ack while the request is pending, also one meant for another endpoint before the "
    "status stage (cf. C08)",
]
LEVEL_TEXT = ("Machine-checked proof, parametric for IN endpoints, per configuration for OUT endpoints and the decode. (1) IN: for every "
              "max_packet_size, endpoint number and input history the USBStreamInEndpoint model obeys the toggle rule seq_next -- DATA0 after "
              "a clear-halt strobe naming this IN endpoint (enable & direction & number = endpoint_number), flipped by a host ACK while a "
              "completed packet's handshake is outstanding, unchanged otherwise -- and every transmission carries that toggle on "
              "tx_pid_toggle (C14_in_toggle_rule_holds; simulation relation toggle = data_pid in WAIT_TO_SEND/SEND/WAIT_FOR_ACK, its "
              "complement in WAIT_FOR_DATA).  For max_packet_size 2 (thorough: 2, 3) the netlist regenerated from /repo equals the model "
              "on all outputs but tx.payload for all traces over a state-dependent alphabet that includes clear-halt words for this "
              "endpoint, the other direction (thorough: another number), giving C14_<cfg>: netlist satisfies the rule.  (2) OUT: for "
              "USBStreamOutEndpoint at (max_packet_size, buffer) = (1,1) (thorough: (1,2), (2,3)) the expected_data_toggle register is "
              "proved, for all traces over an explicit input alphabet, to be cleared exactly by a strobe naming this OUT endpoint, flipped "
              "exactly when the device ACKs a data packet carrying the expected PID, unchanged otherwise; a repeated PID is ACKed "
              "(certified reachability of netlist x monitor).  (3) decode: the clear_endpoint_halt strobe of StandardRequestHandler is "
              "(1, wIndex[7], wIndex[3:0]) exactly at a host ACK while the most recent SETUP packet is a not yet completed "
              "CLEAR_FEATURE(ENDPOINT_HALT, recipient endpoint) and all-zero otherwise (any newer SETUP replaces the pending request; other "
              "requests, selectors, recipients and non-standard types never produce it), for all traces over the explicit input alphabet, "
              "without environment assumption.  (4) Checked, not proved: the same three monitors on simulator "
              "traces at realistic sizes (IN 64/512, OUT 64/127..512/1023).  The IN-rule defect this check found (see ASSUMPTIONS) is "
              "repaired in /repo (3b70630).")
LEVEL_NOTE = ("Trusted: Coq kernel + vm_compute, Amaranth elaboration, nir2coq.py/Netlist.v and harness/slice.py (validated each run against "
              "pysim), the harness-side export of expected_data_toggle.  The OUT rule and the decode have no parametric Coq model: their "
              "theorems are per tie configuration (any trace length, restricted data values); other sizes rest on the runtime monitors.  "
              "The composition 'decode strobe -> endpoint multiplexer -> endpoints' (pure wiring in USBEndpointMultiplexer / "
              "USBControlEndpoint) is not covered.")
TECHNIQUE = ("Rocq proof: simulation relation between the IN endpoint model and a three-bit toggle observer (parametric) + certified "
             "product-reachability of regenerated netlists against the model (IN) and directly against observer specifications "
             "(OUT register exported by the harness, request-handler decode on its cone of influence) + runtime monitors on simulator traces")
