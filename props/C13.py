"""C13 -- bulk/interrupt OUT endpoint (luna/gateware/usb/usb2/endpoints/stream.py: USBStreamOutEndpoint)
ACKs exactly the data it delivers."""
import os
from harness.core import Target
from harness import tie
from harness import tie_explicit

PID = "C13"
EP = 1          # endpoint number the targets are built with (the model is parametric in it)
TIE_IMPORTS = ("From LunaModel Require Import BoundaryDet BoundaryDet_proofs TxFifo TxFifo_proofs C16_OutTrack "
               "StreamOut StreamOut_proofs.\n")

IN_LAYOUT = [("is_out", 1), ("is_ping", 1), ("tok_rfr", 1), ("rx_valid", 1), ("rx_next", 1), ("rx_complete", 1),
             ("rx_invalid", 1), ("rx_rfr", 1), ("ready", 1), ("rx_pid_toggle", 2), ("endpoint", 4), ("clr", 6),
             ("rx_payload", 8)]


def mk(mps, buf, big):
    def build():
        from amaranth import Elaboratable, Module, Mux, Signal
        from luna.gateware.usb.usb2.endpoints.stream import USBStreamOutEndpoint

        class Wrapper(Elaboratable):
            """exposes the output stream masked by stream.valid: payload, first and last mean something only while valid
            is high, so don't-care values (stale FIFO read data) never count as a difference"""
            def __init__(self):
                self.ep = USBStreamOutEndpoint(endpoint_number=EP, max_packet_size=mps, buffer_size=buf)
                self.first = Signal(); self.last = Signal(); self.payload = Signal(8)
            def elaborate(self, platform):
                m = Module(); m.submodules.ep = ep = self.ep
                v = ep.stream.valid
                m.d.comb += [self.first.eq(ep.stream.first & v), self.last.eq(ep.stream.last & v),
                             self.payload.eq(Mux(v, ep.stream.payload, 0))]
                return m
        w = Wrapper(); d = w.ep
        i = d.interface; tk = i.tokenizer
        return w, [("is_out", tk.is_out), ("is_ping", tk.is_ping), ("tok_rfr", tk.ready_for_response),
                   ("rx_valid", i.rx.valid), ("rx_next", i.rx.next), ("rx_complete", i.rx_complete),
                   ("rx_invalid", i.rx_invalid), ("rx_rfr", i.rx_ready_for_response), ("ready", d.stream.ready),
                   ("rx_pid_toggle", i.rx_pid_toggle), ("endpoint", tk.endpoint),
                   ("clr", i.clear_endpoint_halt_in.as_value()), ("rx_payload", i.rx.payload)], \
                  [("ack", i.handshakes_out.ack), ("nak", i.handshakes_out.nak), ("valid", d.stream.valid),
                   ("first", w.first), ("last", w.last), ("payload", w.payload)]
    t = Target(f"outep_m{mps}_b{buf}", build)
    t.params = dict(mps=mps, buf=buf); t.big = big
    return t


# (max_packet_size, buffer_size); LUNA's default buffer is 2 * max_packet_size - 1
SMALL_QUICK = [(1, 1)]
SMALL_THOROUGH = [(1, 1), (1, 2)]
BIG_QUICK = [(2, 3), (4, 7), (64, 127)]
BIG_THOROUGH = [(2, 2), (2, 3), (3, 5), (4, 7), (4, 9), (8, 15), (8, 16), (64, 127), (64, 100), (512, 1023)]


def targets(tier):
    small = SMALL_QUICK if tier == "quick" else SMALL_THOROUGH
    big = BIG_QUICK if tier == "quick" else BIG_THOROUGH
    return [mk(m, b, False) for m, b in small] + [mk(m, b, True) for m, b in big]


# ---------------------------------------------------------------------------------------------------
# trace generators
def pack_in(c):
    w = 0; lo = 0
    for n, wd in IN_LAYOUT:
        w |= (c[n] & ((1 << wd) - 1)) << lo; lo += wd
    return w


def clr_word(enable, direction, number):
    return (enable & 1) | ((direction & 1) << 1) | ((number & 15) << 2)


class Oracle:
    """One Amaranth simulator per target, re-run on growing prefixes of a trace (the host generator needs to see the
    endpoint's handshakes to behave like a host).  Same stepping convention as harness.core.Target.simulate."""
    def __init__(self, target):
        from amaranth.sim import Simulator
        elab, ins, outs = target.build()
        self.sim = Simulator(elab)
        self.sim.add_clock(1e-6, domain="usb")
        self.holder = {"trace": None, "result": None}
        insig = dict(ins); outsig = list(outs); holder = self.holder

        async def tb(ctx):
            res = []
            for cyc in holder["trace"]:
                for n, v in cyc.items():
                    ctx.set(insig[n], v)
                res.append({n: ctx.get(s) for n, s in outsig})
                await ctx.tick("usb")
            holder["result"] = res
        self.sim.add_testbench(tb)

    def simulate(self, traces):
        out = []
        for tr in traces:
            self.holder["trace"] = tr
            self.sim.reset(); self.sim.run()
            out.append(self.holder["result"])
        return out


class Host:
    """Transaction-level host: OUT transactions (token, DATAx packet with payload / CRC outcome, response strobe after a
    speed-dependent delay, retransmission with the same toggle when not ACKed or when the ACK 'got lost'), PING
    transactions, traffic for other endpoints, ClearFeature(HALT) between transactions.  The consumer's ready pattern is
    an independent process."""
    def __init__(self, rng, mps, buf, small=None, legal=True):
        self.rng = rng; self.mps = mps; self.buf = buf; self.small = small; self.legal = legal
        self.tr = []
        self.tok = dict(endpoint=EP, is_out=1, is_ping=0)
        self.tog = 0                      # host's idea of the next data toggle for EP
        self.rxtog = 0
        self.delay = rng.choice([1, 1, 2, 3, 10])          # HS: 1; FS @12 MHz: 2; FS @60 MHz: 10
        self.mode = rng.choice(["stall", "slow", "half", "fast", "always", "bursts"])
        self.burst = 0; self.burst_on = False

    def pay(self):
        return self.rng.choice(self.small) if self.small else self.rng.randrange(256)

    def ready(self):
        r = self.rng
        if self.mode == "stall": return int(r.random() < 0.03)
        if self.mode == "slow": return int(r.random() < 0.15)
        if self.mode == "half": return int(r.random() < 0.5)
        if self.mode == "fast": return int(r.random() < 0.9)
        if self.mode == "always": return 1
        if self.burst == 0:
            self.burst_on = not self.burst_on
            self.burst = r.randint(1, 2 * self.mps + 3) if self.burst_on else r.randint(self.mps, 6 * self.mps + 10)
        self.burst -= 1
        return int(self.burst_on)

    def cyc(self, valid=0, nxt=0, c=0, i=0, rfr=0, tok_rfr=0, clr=0, payload=None):
        self.tr.append({"is_out": self.tok["is_out"], "is_ping": self.tok["is_ping"], "tok_rfr": tok_rfr,
                        "rx_valid": valid, "rx_next": nxt, "rx_complete": c, "rx_invalid": i, "rx_rfr": rfr,
                        "ready": self.ready(), "rx_pid_toggle": self.rxtog, "endpoint": self.tok["endpoint"], "clr": clr,
                        "rx_payload": self.pay() if payload is None else payload})

    def idle(self, k):
        for _ in range(k): self.cyc()

    def data_packet(self, n, good, gaps=True):
        """returns nothing; rx.valid run with n bytes, strobe in the cycle rx.valid falls, response strobe after delay"""
        r = self.rng
        for _ in range(r.choice([1, 1, 2])):               # rx.valid before the first byte
            self.cyc(1, 0)
        for k in range(n):
            self.cyc(1, 1)
            if gaps:
                for _ in range(r.choice([0, 0, 0, 1, 3])): self.cyc(1, 0)
        self.cyc(0, 0, int(good), int(not good))           # cycle T
        if good:
            for _ in range(self.delay - 1): self.cyc()
            self.cyc(rfr=1)                                # cycle T + delay
        self.idle(r.choice([2, 2, 3, 5]))

    def out_transaction(self, payload_len=None, good=None, to_us=True):
        r = self.rng; mps = self.mps
        if to_us:
            self.tok = dict(endpoint=EP, is_out=1, is_ping=0)
        else:
            self.tok = dict(endpoint=(EP + 1 + r.randrange(14)) % 16 or 2, is_out=1, is_ping=0)
        self.idle(r.choice([1, 2, 4]))
        if payload_len is None:
            payload_len = r.choice([0, 1, mps - 1, mps, mps, mps]) if r.random() < 0.85 else r.randint(0, mps)
            payload_len = max(0, payload_len)
        if good is None: good = r.random() < 0.85
        self.rxtog = self.tog if to_us else r.randrange(2)
        self.data_packet(payload_len, good, gaps=r.random() < 0.6)
        return payload_len, good

    def ping(self):
        self.tok = dict(endpoint=EP, is_out=0, is_ping=1)
        self.idle(self.rng.choice([1, 2]))
        self.cyc(tok_rfr=1)
        self.idle(self.rng.choice([1, 2]))

    def clear_halt(self):
        r = self.rng
        x = r.random()
        w = clr_word(1, 0, EP) if x < 0.6 else clr_word(1, 1, EP) if x < 0.8 else clr_word(1, 0, (EP + 3) % 16)
        self.cyc(clr=w)
        if w == clr_word(1, 0, EP): self.tog = 0
        self.idle(1)


def session(rng, mps, buf, target, ntrans, small=None):
    """A host session.  The host needs the endpoint's handshakes to keep its toggle right, so the trace is built
    incrementally: after each transaction the module is simulated to see ACK/NAK (cheap: one simulator per trace)."""
    h = Host(rng, mps, buf, small)
    h.idle(rng.randint(0, 3))
    pending = None
    for _ in range(ntrans):
        x = rng.random()
        if pending is not None and x < 0.85:
            n, kind = pending                                 # retransmit the same packet with the same toggle
            start = len(h.tr)
            h.out_transaction(payload_len=n, good=rng.random() < 0.9)
        elif x < 0.70:
            start = len(h.tr)
            n, good = h.out_transaction()
        elif x < 0.80:
            h.ping(); continue
        elif x < 0.90:
            h.out_transaction(to_us=False); continue
        elif x < 0.95:
            h.clear_halt(); pending = None; continue
        else:
            h.mode = rng.choice(["stall", "slow", "half", "fast", "always", "bursts"]); continue
        # what did the endpoint answer?  (simulate the prefix)
        outs = target.simulate([h.tr])[0]
        ack = any(o["ack"] for o in outs[start:]); nak = any(o["nak"] for o in outs[start:])
        n_sent = n if pending is None else pending[0]
        if ack and rng.random() < 0.9:
            h.tog ^= 1; pending = None                        # ACK seen: next packet uses the other toggle
        elif ack:
            pending = (n_sent, "lost-ack")                    # ACK lost on the wire: host repeats with the same toggle
        else:
            pending = (n_sent, "retry")                       # NAK or no response (bad CRC): retry
    h.idle(3)
    h.mode = "always"; h.idle(min(buf, 60) + 3)
    return h.tr


def overflow_session(rng, mps, buf, target, small=None):
    """Stalled consumer; full-size packets until one does not fit (NAK expected whatever the response delay),
    retries, then the consumer drains and the retry goes through."""
    h = Host(rng, mps, buf, small); h.ready = lambda: 0
    h.delay = rng.choice([1, 2, 3, 10])
    h.idle(2)
    for k in range(buf // max(1, mps) + 2):
        start = len(h.tr)
        h.out_transaction(payload_len=rng.choice([mps, mps, max(1, mps - 1)]), good=True)
        outs = target.simulate([h.tr])[0]
        if any(o["ack"] for o in outs[start:]): h.tog ^= 1
    if rng.random() < 0.5: h.ping()
    h.ready = lambda: int(rng.random() < 0.6)
    for k in range(3):
        start = len(h.tr)
        h.out_transaction(payload_len=rng.choice([mps, 1, 0]), good=True)
        outs = target.simulate([h.tr])[0]
        if any(o["ack"] for o in outs[start:]): h.tog ^= 1
    h.ready = lambda: 1
    h.idle(min(buf, 60) + 4)
    return h.tr


def noise(rng, n):
    tr = []
    kind = rng.choice(["rx_complete", "rx_invalid"])
    for _ in range(n):
        c = {"is_out": int(rng.random() < 0.8), "is_ping": int(rng.random() < 0.1), "tok_rfr": int(rng.random() < 0.1),
             "rx_valid": int(rng.random() < 0.7), "rx_next": int(rng.random() < 0.5), "rx_complete": 0, "rx_invalid": 0,
             "rx_rfr": int(rng.random() < 0.1), "ready": int(rng.random() < 0.4), "rx_pid_toggle": rng.randrange(4),
             "endpoint": EP if rng.random() < 0.8 else rng.randrange(16),
             "clr": clr_word(int(rng.random() < 0.03), rng.randrange(2), EP), "rx_payload": rng.randrange(256)}
        # (only one kind of strobe per noise trace: complete AND invalid buffered for the same packet make the
        #  gateware FIFO swap its write pointers -- C18's finding -- which the FIFO model does not imitate)
        if rng.random() < 0.15: c[kind] = 1
        tr.append(c)
    return tr


SMALL_PAYLOADS = [0xA5, 0x5A]


def traces(target, rng, tier):
    mps, buf = target.params["mps"], target.params["buf"]
    out = []
    orc = Oracle(target)
    if not target.big:
        n = 6 if tier == "quick" else 24
        for k in range(n):
            out.append(session(rng, mps, buf, orc, rng.randint(3, 9), small=SMALL_PAYLOADS if k % 2 else None))
        for k in range(max(2, n // 2)):
            out.append(overflow_session(rng, mps, buf, orc))
        out.append(noise(rng, 150))
    else:
        budget = 900 if tier == "quick" else 6000
        total = 0; k = 0
        while total < budget:
            t = overflow_session(rng, mps, buf, orc) if k % 3 == 0 else session(rng, mps, buf, orc, rng.randint(3, 7))
            out.append(t); total += len(t); k += 1
        out.append(noise(rng, 120))
    return out


# ---------------------------------------------------------------------------------------------------
OTHER_EP = (EP + 1) % 16


def alphabet(both):
    """input words of the lock-step obligations: for each token kind {OUT token for EP (, OUT token for another endpoint)}
    x rx_pid_toggle {0,1} x stream.ready {0,1}: receive side {idle, idle + rx_complete, idle + rx_invalid, rx.valid,
    rx.valid + rx.next} and idle + rx_ready_for_response; plus PING for EP with tokenizer.ready_for_response and
    ClearFeature(HALT) for EP (each x stream.ready); payload byte 0xA5"""
    ws = []
    base = dict(is_out=1, is_ping=0, tok_rfr=0, rx_valid=0, rx_next=0, rx_complete=0, rx_invalid=0, rx_rfr=0, ready=0,
                rx_pid_toggle=0, endpoint=EP, clr=0, rx_payload=0xA5)
    for ep in ((EP, OTHER_EP) if both else (EP,)):
        for tog in (0, 1):
            for rdy in (0, 1):
                for (v, n, c, i) in [(0, 0, 0, 0), (0, 0, 1, 0), (0, 0, 0, 1), (1, 0, 0, 0), (1, 1, 0, 0)]:
                    ws.append(pack_in(dict(base, endpoint=ep, rx_pid_toggle=tog, ready=rdy, rx_valid=v, rx_next=n,
                                           rx_complete=c, rx_invalid=i)))
                ws.append(pack_in(dict(base, endpoint=ep, rx_pid_toggle=tog, ready=rdy, rx_rfr=1)))
    for rdy in (0, 1):
        ws.append(pack_in(dict(base, is_out=0, is_ping=1, tok_rfr=1, ready=rdy)))
        ws.append(pack_in(dict(base, clr=clr_word(1, 0, EP), ready=rdy)))
    return sorted(set(ws))


# lock-step configurations: (max_packet_size, buffer_size, both token kinds in the alphabet?)
def lock_cfg(tier):
    return {(1, 1): False} if tier == "quick" else {(1, 1): True, (1, 2): False}


def obligations(targets, tier):
    cfg = lock_cfg(tier)
    obs = []
    for t in targets:
        mps, buf = t.params["mps"], t.params["buf"]
        if not t.big:
            both = cfg[(mps, buf)]
            al = alphabet(both)
            obs.append(tie_explicit.rlock_alpha(
                f"ob_{t.name}", t,
                St="so_state", mstep=f"so_mstep {mps} {buf} {EP}", enc=f"so_enc {mps} {buf}", dec=f"so_dec {mps} {buf}",
                wf=f"so_wf {mps} {buf}", dec_enc=f"so_dec_enc {mps} {buf}", wf_step=f"so_wf_step {mps} {buf} {EP}",
                m0=f"so_init {buf}", wf_m0="apply so_wf_init.", env=f"so_menv {mps} {EP}",
                alphabet="[" + "; ".join(str(w) for w in al) + "]", fuel=100000,
                describe=f"USBStreamOutEndpoint(max_packet_size={mps}, buffer_size={buf}) == endpoint model (boundary detector + "
                         f"toggle/overflow/transfer registers + FIFO) in lock step on all traces over {len(al)} input words "
                         f"(OUT token for this{' / another' if both else ''} endpoint x data toggle x stream.ready x receive side "
                         f"idle / +rx_complete / +rx_invalid / rx.valid / +rx.next / rx_ready_for_response; PING; ClearFeature(HALT); "
                         f"payload 0xA5) that keep the environment assumption"))
        obs.append(tie.corr(f"corr_{t.name}", t, mstep=f"so_mstep {mps} {buf} {EP}", m0=f"so_init {buf}",
                            norm="so_normN",
                            describe=f"endpoint model vs simulator at max_packet_size={mps}, buffer_size={buf}: host sessions "
                                     f"(OUT transactions of all sizes incl. zero-length, bad CRC, retransmissions with repeated "
                                     f"toggle, lost ACKs, PING, other endpoints, ClearFeature(HALT), response delays 1/2/3/10 cycles, "
                                     f"consumer back-pressure up to overflow), full-width payloads; stream compared while valid"))
        if True:
            obs.append(tie.cmon(f"spec_{t.name}", t, mon=f"(ss_mon {mps} {buf} {EP})", m0="ss_mon0",
                                describe=f"the packet-level SPECIFICATION machine (ss_next/ss_outf) run as an oracle over simulator "
                                         f"traces of the real module at max_packet_size={mps}, buffer_size={buf}: in every cycle that "
                                         f"keeps the environment assumption, ack, nak, stream.valid and (while valid) "
                                         f"payload/first/last must be those of the specification"))
    return obs


def tie_theorems(targets, tier):
    s = ""
    for t in targets:
        if t.big: continue
        mps, buf = t.params["mps"], t.params["buf"]; ob = f"ob_{t.name}"
        s += f"""
Theorem C13_{t.name} : forall tr,
  Forall (fun w => In w {ob}.alpha) tr ->
  ss_env_ok {mps} {buf} ss_init (map (so_in_of {EP}) tr) = true ->
  map (fun w => so_norm (so_out_of w)) (run {t.modname}.step {t.modname}.init tr)
  = ss_run {mps} {buf} ss_init (map (so_in_of {EP}) tr).
Proof.
  intros tr H HE.
  rewrite ({ob}_T.tie tr H (so_menv_ok {mps} {buf} {EP} ltac:(lia) tr HE)).
  apply so_packed_refines; [lia | exact HE].
Qed.
"""
    return s


def tie_theorem_names(targets, tier):
    return [f"C13_{t.name}" for t in targets if not t.big]


ASSUMPTIONS = [
    "environment, per cycle on EndpointInterface signals (ss_env in Model/StreamOut.v): E0 rx.payload is a byte; E1 while a packet "
    "is being received and until its outcome has been acted upon (two cycles after rx.valid fell) the tokenizer fields that select "
    "the endpoint and the received data PID (rx_pid_toggle) do not change, and while a packet is open no response is requested "
    "(rx_ready_for_response low) and no ClearFeature(HALT) arrives -- the token detector / data receiver / control endpoint only "
    "change these between transactions; E2 rx.valid stays low for the two cycles after a packet ended (inter-packet gap; "
    "USBDataPacketReceiver raises stream.valid only after PID + two bytes of the next packet); E3 a packet addressed to the endpoint "
    "ends with exactly one of rx_complete / rx_invalid, seen no later than the cycle in which rx.valid falls (C02); E4 a packet "
    "addressed to the endpoint has at most max_packet_size payload bytes",
    "no assumption on WHEN rx_ready_for_response arrives after the packet (1 cycle at high speed, 2 at 12 MHz full speed, 10 / 80 at "
    "60 MHz full / low speed): the specification answers from the state it keeps until the next packet begins. That the strobe "
    "follows a CRC-valid packet exactly once (C02) is what makes 'the packet being answered' the most recent one; the theorems about "
    "handshakes are stated per response cycle and do not need it",
    "no assumption on packet sizes 0..max_packet_size, corruption, retransmissions, toggle values (DATA2/MDATA never match and are "
    "answered like a repeated toggle, as in the gateware), PING at any time, the consumer's ready pattern or the buffer size",
    "reading of the property: 'newly accepted' = CRC-valid, addressed, expected toggle, no byte lost; a transfer ends with a packet "
    "shorter than max_packet_size, including a zero-length packet; `first` marks the first byte accepted after the end of a transfer "
    "(or after reset), `last` the final byte of a packet shorter than max_packet_size. A byte is lost iff no buffer slot is free in "
    "the cycle it reaches the buffer (one byte behind the wire); slots in use = undelivered entries + stored bytes of the open "
    "packet + 1 if an entry was delivered in the previous cycle. PING: ACK iff max_packet_size slots are free",
    "the output stream is compared while stream.valid is high (payload/first/last are don't-care otherwise; the targets expose "
    "them masked by stream.valid through a wrapper in props/C13.py)",
    "the specification oracle (cmon) keeps its state in a bounded encoding and stops judging a trace at the first cycle that "
    "breaks the environment assumption or at any packet, addressed or not, longer than max_packet_size bytes; correspondence "
    "(model vs simulator) has no such limits except that rx_complete and rx_invalid are never generated for the same packet",
    "lock-step tie configurations (max_packet_size, buffer_size): (1,1) with an OUT-token-for-this-endpoint alphabet (quick); (1,1) and "
    "(1,2) (thorough; (1,1) also with tokens for another endpoint); explicit input alphabets (see obligation_list); larger "
    "configurations exceed the reachability budget (29733 product states at (1,2) with both token kinds) and are covered by "
    "correspondence and specification-oracle runs: (2,3) (4,7) (64,127) quick / up to (512,1023) thorough with full-width "
    "random payloads (2*mps-1 is LUNA's default buffer size); endpoint_number = 1",
    "DEFECTS: the unchanged tree violates the property in three ways (findings/C13-*.json, confirmed on Amaranth's simulator): "
    "(a) an overflowed, discarded packet is ACKed (and the toggle advanced) when rx_ready_for_response arrives 3 or more cycles "
    "after the packet -- every full/low-speed device on a 60 MHz PHY; (b) transfer_active follows discarded (corrupted / NAKed) "
    "packets, so the retransmission's bytes carry a wrong `first`; (c) a zero-length packet does not end the transfer. Model and "
    "specification describe the repaired behaviour (findings/C13-ack-after-discard-and-first-marking.diff); ./check C13 exits 0 "
    "only with that patch applied",
]
LEVEL_TEXT = ("Machine-checked proof. (1) For every max_packet_size >= 1, every buffer size, every endpoint number and every input "
              "history of any length that keeps the environment assumption, the code-shaped model of USBStreamOutEndpoint "
              "(boundary-detector FSM model of C28 + expected toggle / overflow / rx_cnt (with its real width) / transfer_active registers "
              "and the ACK/NAK equations + pointer/memory FIFO model of C18) shows in every cycle exactly ack, nak, stream.valid and, "
              "while valid, payload/first/last of the packet-level specification machine [C13_model_refines_spec: simulation relation "
              "through the abstract transactional queue of C18, induction over the history]. (2) For the specification, hence for the "
              "model: entries delivered ++ entries still queued = concatenation of the framed payloads of the packets accepted as new "
              "data (CRC-valid, addressed, expected toggle, no byte lost), each exactly once, in order, whole [C13_stream_is_accepted_"
              "payloads]; a response to a packet with the expected toggle is ACK iff no byte was lost -- exactly the commit condition -- "
              "and NAK otherwise, a repeated toggle is ACKed and stores nothing [C13_response, C13_handshakes]; the toggle advances "
              "exactly with an ACK for new data [C13_toggle]; `first`/`last` are those of the framing (first iff the packet starts a "
              "transfer, last iff it is shorter than max_packet_size). (3) For the small tie configurations the netlist regenerated "
              "from /repo is proved equal to the model on all traces over an explicit input alphabet that keep the assumption "
              "(certified product reachability), giving C13_outep_m<k>_b<n>: netlist handshakes and stream = specification. "
              "(4) Simulator correspondence and the specification run as an oracle at realistic sizes.")
LEVEL_NOTE = ("Trusted: Coq kernel + vm_compute, Amaranth elaboration to NIR, nir2coq.py/Netlist.v (validated each run against Amaranth's "
              "simulator). Partial in one respect: the link 'the ACK answers the packet whose payload was committed' is proved per "
              "response cycle on the specification state (C13_response: ACK <-> nothing lost <-> commit condition), not as a "
              "trace-level pairing of ACK events with packets, which would need the additional environment fact that "
              "rx_ready_for_response follows each CRC-valid packet exactly once before the next packet. The netlist=model theorems are "
              "per configuration (small sizes, endpoint 1) over finite input alphabets (one payload byte value); other sizes and "
              "full-width data rest on the parametric theorem plus correspondence. The FIFO model imported from C18 gates commit by "
              "~discard; the endpoint never asserts both (assumption E3). The unchanged tree FAILS this check (three genuine defects, "
              "see assumptions); it passes with findings/C13-ack-after-discard-and-first-marking.diff.")
TECHNIQUE = ("Rocq proof: simulation relation between the code-shaped composite model and a packet-level specification machine, reusing "
             "the C28 boundary-detector model and the C18 FIFO refinement theorem (all sizes, unbounded histories) + certified "
             "product-reachability (lock-step, explicit alphabet, environment-constrained) against the netlist regenerated from source + "
             "simulator correspondence and specification oracle at realistic sizes with a transaction-level host generator")
