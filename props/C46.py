"""C46 -- SuperSpeed stream IN endpoint (luna/gateware/usb/usb3/endpoints/stream.py: SuperSpeedStreamInEndpoint);
its NRDY/ERDY requests go to the transaction packet generator of usb3/protocol/transaction.py (C45)."""
from harness.core import Target
from harness import tie

PID = "C46"
EP = 1
TIE_IMPORTS = ("From LunaLib Require Import ReachDep.\n"
               "From LunaModel Require Import SsIn SsIn_proofs SsInTp.\n")

IN_PORTS = ["valid", "last", "payload", "tx_ready", "ack", "hep", "retry", "nseq", "nump", "hs_ready", "hs_done"]
OUT_PORTS = ["ready", "tx_valid", "tx_first", "tx_last", "tx_payload", "tx_zlp", "tx_length", "tx_seq", "tx_ep",
             "tx_dir", "send_nrdy", "send_erdy", "ho_ep"]

ASSUMPTIONS = [
    "interface-level view: the endpoint alone; the transaction packet generator behind handshakes_out is represented by its "
    "interface contract (ready exactly while idle, a request is taken only while ready, ERDY before NRDY, done pulses while busy), "
    "which is what C45 proves about TransactionPacketGenerator; ep_reset is held 0 (endpoint reset is not part of the property)",
    "max_packet_size is a multiple of 4 with 4 <= max_packet_size <= 1024 (the module computes in 32-bit words and tx_length is "
    "Signal(range(1025)))",
    "stream producer contract: valid masks 0001/0011/0111 only together with last (SuperSpeedStreamInterface words are full "
    "except at the end of a transfer); a word counts as accepted in a cycle with valid != 0 and ready = 1",
    "host contract (burst size 1, USB 3.2 8.10-8.12): an ACK TP for this endpoint arrives only when no IN request of the host is "
    "still unanswered, no data packet is in flight, the host has not been told NRDY without a later ERDY, and no NRDY/ERDY is still "
    "on its way; an ACK TP that acknowledges nothing carries NumP > 0.  ACK TPs for other endpoints are unrestricted.  Within that "
    "contract every timing, every retry / acknowledge / NumP choice and every tx.ready pattern is covered",
    "the header of a data packet is read in the cycle tx.valid rises (that is when DataPacketTransmitter latches it), a ZLP's in "
    "the cycle of the tx_zlp strobe",
    "R tie configurations: max_packet_size = 8 (two words per buffer), SEQUENCE_NUMBER_BITS (a class attribute of the "
    "endpoint) = 1 in the quick tier, 1 and 2 in the thorough tier; input alphabets SsIn.ss_alpha depend on the model state: only "
    "inputs the contract allows in that state, and both values of an input only where the module can look at it. Control profile "
    "(3): stream masks 1111 / 1111+last / 0011+last with payload word 0, IN request, ACK with NumP 0/1, retry by flag and by "
    "repeated sequence number, ACK TPs for another endpoint, tx.ready and generator ready/done both ways; data profile (1, "
    "thorough): full words whose payload tells the buffer position. Inputs outside these alphabets (random 32-bit data, masks "
    "0001/0111, other sizes) are covered by correspondence and by the referee as runtime oracle, not by the R theorem",
    "integrated target ssin_tp_*: the endpoint wired to the real TransactionPacketGenerator; there the generator contract above "
    "is checked (not assumed) and the headers handed to the link layer are checked to be NRDY/ERDY TPs of this endpoint",
]


def mk(mps, sb=5, role="corr"):
    def build():
        from luna.gateware.usb.usb3.endpoints.stream import SuperSpeedStreamInEndpoint

        class Ep(SuperSpeedStreamInEndpoint):
            SEQUENCE_NUMBER_BITS = sb
        d = Ep(endpoint_number=EP, max_packet_size=mps)
        s = d.stream; i = d.interface; hi = i.handshakes_in; ho = i.handshakes_out
        ins = [("valid", s.valid), ("last", s.last), ("payload", s.payload), ("tx_ready", i.tx.ready),
               ("ack", hi.ack_received), ("hep", hi.endpoint_number), ("retry", hi.retry_required),
               ("nseq", hi.next_sequence), ("nump", hi.number_of_packets), ("hs_ready", ho.ready), ("hs_done", ho.done)]
        outs = [("ready", s.ready), ("tx_valid", i.tx.valid), ("tx_first", i.tx.first), ("tx_last", i.tx.last),
                ("tx_payload", i.tx.payload), ("tx_zlp", i.tx_zlp), ("tx_length", i.tx_length),
                ("tx_seq", i.tx_sequence_number), ("tx_ep", i.tx_endpoint_number), ("tx_dir", i.tx_direction),
                ("send_nrdy", ho.send_nrdy), ("send_erdy", ho.send_erdy), ("ho_ep", ho.endpoint_number)]
        return d, ins, outs
    t = Target(f"ssin_m{mps}_s{sb}", build)
    t.params = dict(mps=mps, sb=sb); t.role = role
    return t


def mk_tp(mps):
    """The endpoint wired to the real TransactionPacketGenerator (handshakes_out = generator interface)."""
    def build():
        from amaranth import Elaboratable, Module
        from luna.gateware.usb.usb3.endpoints.stream import SuperSpeedStreamInEndpoint
        from luna.gateware.usb.usb3.protocol.transaction import TransactionPacketGenerator

        class Wrap(Elaboratable):
            def __init__(self):
                self.ep = SuperSpeedStreamInEndpoint(endpoint_number=EP, max_packet_size=mps)
                self.gen = TransactionPacketGenerator()
            def elaborate(self, platform):
                m = Module()
                m.submodules.ep = self.ep; m.submodules.gen = self.gen
                ho = self.ep.interface.handshakes_out; gi = self.gen.interface
                m.d.comb += [gi.endpoint_number.eq(ho.endpoint_number), gi.retry_required.eq(ho.retry_required),
                             gi.next_sequence.eq(ho.next_sequence), gi.send_ack.eq(ho.send_ack),
                             gi.send_stall.eq(ho.send_stall), gi.send_nrdy.eq(ho.send_nrdy),
                             gi.send_erdy.eq(ho.send_erdy), ho.ready.eq(gi.ready), ho.done.eq(gi.done)]
                return m
        w = Wrap(); d = w.ep; g = w.gen
        s = d.stream; i = d.interface; hi = i.handshakes_in; ho = i.handshakes_out; hs = g.header_source
        ins = [("valid", s.valid), ("last", s.last), ("payload", s.payload), ("tx_ready", i.tx.ready),
               ("ack", hi.ack_received), ("hep", hi.endpoint_number), ("retry", hi.retry_required),
               ("nseq", hi.next_sequence), ("nump", hi.number_of_packets), ("hq_ready", hs.ready), ("address", g.address)]
        outs = [("ready", s.ready), ("tx_valid", i.tx.valid), ("tx_first", i.tx.first), ("tx_last", i.tx.last),
                ("tx_payload", i.tx.payload), ("tx_zlp", i.tx_zlp), ("tx_length", i.tx_length),
                ("tx_seq", i.tx_sequence_number), ("tx_ep", i.tx_endpoint_number), ("tx_dir", i.tx_direction),
                ("send_nrdy", ho.send_nrdy), ("send_erdy", ho.send_erdy), ("ho_ep", ho.endpoint_number),
                ("gen_ready", g.interface.ready), ("gen_done", g.interface.done), ("hdr_valid", hs.valid),
                ("dw0", hs.header.dw0), ("dw1", hs.header.dw1)]
        return w, ins, outs
    t = Target(f"ssin_tp_m{mps}", build)
    t.params = dict(mps=mps, sb=5); t.role = "tp"
    return t


# R configurations: (sb = SEQUENCE_NUMBER_BITS, alphabet profile of SsIn.ss_alpha)
R_QUICK = [(1, 3)]
R_THOROUGH = [(1, 3), (2, 3), (1, 1)]
PROFILE_TEXT = {
    3: "control profile: stream words with masks 1111 / 1111+last / 0011+last (payload 0), host: IN request, ACK with "
       "NumP 0 and 1, retry by flag and by repeated sequence number, ACK TPs for another endpoint, tx.ready both ways "
       "while a word is on offer, generator ready/done both ways while ERDY is requested",
    1: "data profile: full stream words whose payload tells the buffer position (0x11223344 first, 0xAABBCCDD after), "
       "with and without last; host: IN request, ACK with NumP 0 and 1, retry; tx.ready both ways",
}


def r_configs(tier):
    return R_QUICK if tier == "quick" else R_THOROUGH


def targets(tier):
    sbs = sorted({sb for sb, _ in r_configs(tier)})
    ts = [mk(8, sb, "R") for sb in sbs]
    sizes = [12, 1024] if tier == "quick" else [4, 8, 12, 16, 64, 1024]
    tps = [mk_tp(16)] if tier == "quick" else [mk_tp(8), mk_tp(1024)]
    return ts + [mk(m) for m in sizes] + tps


# ---------------------------------------------------------------------------------------------------
# Closed-loop trace generation: a scripted stream producer, SuperSpeed host and transaction packet generator
# react to the outputs of the REAL module (simulated from the current tree), so that the environment contract
# stays satisfied whatever the module does.
PAYLOADS_R = [0x11223344, 0xAABBCCDD]


class Script:
    def __init__(self, target):
        from amaranth.sim import Simulator
        self.t = target
        elab, ins, outs = target.build()
        self.ins = dict(ins); self.outs = list(outs)
        self.sim = Simulator(elab)
        self.sim.add_clock(1e-6, domain="ss")
        self.job = None; self.result = None
        self.sim.add_testbench(self._tb)

    async def _tb(self, ctx):
        rng, ncyc, o = self.job
        mps, sb = self.t.params["mps"], self.t.params["sb"]
        small = o.get("small", False)
        p_valid = o.get("p_valid", 0.7); p_ready = o.get("p_ready", 0.8); p_retry = o.get("p_retry", 0.15)
        p_poll = o.get("p_poll", 0.3); p_more = o.get("p_more", 0.6); p_foreign = o.get("p_foreign", 0.08)
        ack_delay = o.get("ack_delay", (1, 5)); gen_delay = o.get("gen_delay", (1, 4))
        sloppy = o.get("sloppy", False)          # producer drops valid although the word was not accepted
        trace = []

        def new_transfer():
            r = rng.random()
            if r < 0.75:
                return max(1, rng.choice([1, 3, 4, 5, mps - 4, mps - 1, mps, mps + 1, mps + 4, 2 * mps - 3, 2 * mps,
                                          2 * mps + 2, 3 * mps]))
            if r < 0.9:
                return rng.randint(1, 3 * mps + 3)
            return None                                   # a transfer that never ends: full packets only

        def word():
            return rng.choice(PAYLOADS_R) if small else rng.getrandbits(32)

        remaining = new_transfer(); cur = None; pause = 0
        # host
        hstate = "poll"; exp = 0; timer = rng.randint(0, 8); waited = 0
        # generator
        gen_busy = 0
        tp = self.t.role == "tp"          # the real generator is part of the target
        outsig = dict(self.outs)
        address = rng.choice([0, 5, 127]); p_hq = rng.choice([1.0, 0.6, 0.25])
        for t in range(ncyc):
            c = dict(valid=0, last=0, payload=0, tx_ready=int(rng.random() < p_ready), ack=0, hep=EP, retry=0,
                     nseq=0, nump=0)
            if tp:
                c.update(hq_ready=int(rng.random() < p_hq), address=address)
                gen_busy = 0 if ctx.get(outsig["gen_ready"]) else 1      # a function of the generator's state only
            else:
                c.update(hs_ready=0, hs_done=0)
            # ---- stream producer
            if pause > 0:
                pause -= 1
            elif cur is None and rng.random() < p_valid:
                if remaining is None:
                    cur = (15, 0, word())
                else:
                    n = min(4, remaining)
                    cur = ((1 << n) - 1, int(remaining <= 4), word())
            if cur is not None and not (sloppy and rng.random() < 0.1):
                c["valid"], c["last"], c["payload"] = cur
            # ---- generator (scripted, unless it is part of the target)
            if tp:
                pass
            elif gen_busy > 0:
                c["hs_ready"] = 0; c["hs_done"] = int(gen_busy == 1)
            else:
                c["hs_ready"] = 1
            # ---- host
            if hstate == "poll":
                if gen_busy == 0 and timer == 0 and rng.random() < p_poll:
                    c.update(ack=1, hep=EP, nump=rng.choice([1, 1, 1, 2, 31]), nseq=exp, retry=0)
                    hstate = "wait_resp"; waited = 0
                elif timer > 0:
                    timer -= 1
            elif hstate == "ack":
                if timer == 0:
                    if rng.random() < p_retry:
                        style = rng.random()
                        if style < 0.7:
                            c.update(ack=1, hep=EP, nump=1, nseq=exp, retry=1)
                        elif style < 0.85:
                            c.update(ack=1, hep=EP, nump=1, nseq=(exp + 1) % (1 << sb), retry=1)
                        else:
                            c.update(ack=1, hep=EP, nump=1, nseq=exp, retry=0)     # repeated number = retry
                        hstate = "wait_resp"; waited = 0
                    else:
                        exp = (exp + 1) % (1 << sb)
                        more = rng.random() < p_more
                        c.update(ack=1, hep=EP, nump=int(more), nseq=exp, retry=0)
                        if more:
                            hstate = "wait_resp"; waited = 0
                        else:
                            hstate = "poll"; timer = rng.choice([0, 0, 1, 3, 10])
                else:
                    timer -= 1
            if c["ack"] == 0 and rng.random() < p_foreign:
                c.update(ack=1, hep=rng.choice([0, 2, 3, EP + 16, 127]), nump=rng.randrange(32), nseq=rng.randrange(32),
                         retry=rng.getrandbits(1))
            if small and c["ack"] == 1 and c["hep"] != EP:
                c.update(hep=2, nump=1, nseq=0, retry=0)
            for n, v in c.items():
                ctx.set(self.ins[n], v)
            out = {n: ctx.get(s) for n, s in self.outs}
            trace.append(c)
            # ---- reactions to the module's outputs
            if c["valid"] and out["ready"]:
                if remaining is not None:
                    remaining -= min(4, remaining)
                    if remaining == 0:
                        remaining = new_transfer(); pause = rng.choice([0, 0, 1, 2, 6, 3 * mps // 4])
                cur = None
            g_ready = out["gen_ready"] if tp else c["hs_ready"]
            took = g_ready and (out["send_nrdy"] or out["send_erdy"])
            took_erdy = g_ready and out["send_erdy"]
            if tp:
                if out["gen_done"] and hstate == "wait_erdy_tp":
                    hstate = "poll"; timer = rng.choice([0, 0, 1, 4])
            else:
                if gen_busy > 0:
                    gen_busy -= 1
                    if gen_busy == 0 and hstate == "wait_erdy_tp":
                        hstate = "poll"; timer = rng.choice([0, 0, 1, 4])
                if took:
                    gen_busy = rng.randint(*gen_delay)
            if hstate == "wait_resp":
                if took and not took_erdy:
                    hstate = "wait_erdy"
                elif out["tx_zlp"]:
                    hstate = "ack"; timer = rng.randint(*ack_delay)
                elif out["tx_valid"]:
                    hstate = "data"
                else:
                    waited += 1
                    if waited > 6 and c["ack"] == 0:      # a broken endpoint: give up, poll again later
                        hstate = "poll"; timer = 3
            if hstate == "data":
                if out["tx_valid"] and out["tx_last"] and c["tx_ready"]:
                    hstate = "ack"; timer = rng.randint(*ack_delay)
                elif not out["tx_valid"]:
                    hstate = "ack"; timer = rng.randint(*ack_delay)      # broken endpoint dropped the packet
            elif hstate == "wait_erdy":
                if took_erdy:
                    hstate = "wait_erdy_tp"
            await ctx.tick("ss")
        self.result = trace

    def run(self, rng, ncyc, **opts):
        self.job = (rng, ncyc, opts)
        self.sim.reset()
        self.sim.run()
        return self.result


def traces(target, rng, tier):
    mps = target.params["mps"]
    s = Script(target)
    big = mps >= 256
    n = (1 if big else 12) if tier == "quick" else (5 if big else 42)
    out = []
    for k in range(n):
        style = k % 7
        ncyc = rng.randint(40, 160) + (int((2.4 if tier == 'quick' else 1.6) * mps) if big else 8 * mps)
        o = dict(small=(target.role == "R"))
        if style == 0:
            o.update(p_valid=1.0, p_ready=1.0, p_poll=0.9, p_more=0.95, ack_delay=(1, 2), p_retry=0.05)   # full throughput
        elif style == 1:
            o.update(p_valid=0.15, p_poll=0.6)                  # starved: NRDY / ERDY paths
        elif style == 2:
            o.update(p_ready=0.35, p_retry=0.3)                 # back-pressure and many retries
        elif style == 3:
            o.update(p_more=0.1, p_poll=0.15, gen_delay=(3, 9)) # lazy host, slow generator
        elif style == 4:
            o.update(sloppy=True, p_foreign=0.3)
        elif style == 5:
            o.update(p_valid=0.4, p_more=0.9, ack_delay=(1, 1), gen_delay=(1, 1))
        if big:
            o.update(p_valid=max(o.get("p_valid", 0.7), 0.7))
        out.append(s.run(rng, ncyc, **o))
    return out


def _ref_ob(t):
    mps, sb = t.params["mps"], t.params["sb"]
    return tie.cmon(f"ref_{t.name}", t, mon=f"(ref_monN {mps} {EP} {sb})", m0="(ref_enc ref_init)",
                    describe=f"the referee (specification SsIn.ref_step) over simulator traces of the real endpoint, "
                             f"max_packet_size={mps}")


def _confirm(ob, ref):
    """A lock-step counterexample found by the certified-reachability search is replayed on the simulator of the real
    module and judged by the referee; if the (shortest) lock-step difference is not itself a violation of the
    specification, the referee is run over scripted traces of the real module to find a concrete failing input."""
    def confirm(path, bdir, hdr):
        import random
        from harness import core, check
        t = ob.target
        trace = [core.nir2coq.unpack(t.layout.inputs, x) for x in path]
        outs = t.simulate([trace])[0]
        packed = [[(t.pack_in(c), t.pack_out(x)) for c, x in zip(trace, outs)]]
        codes = check.eval_monitor(ref, packed, bdir, hdr, f"ConfirmRef_{ob.name}")
        if codes and codes[0] != 0:
            return dict(property=PID, obligation=ref.name, target=t.name, describe=ref.describe, inputs=trace, outputs=outs,
                        confirmed_on_pysim=True, failing_cycle=codes[0] - 1,
                        how="input path from the certified-reachability search on the regenerated netlist (first cycle in which "
                            "it leaves the model), replayed on Amaranth's simulator of /repo: the referee rejects the trace")
        trs = traces(t, random.Random(1), "quick")
        outs2 = t.simulate(trs)
        packed2 = [[(t.pack_in(c), t.pack_out(x)) for c, x in zip(tr, ou)] for tr, ou in zip(trs, outs2)]
        codes2 = check.eval_monitor(ref, packed2, bdir, hdr, f"ConfirmRef2_{ob.name}")
        for k, c in enumerate(codes2):
            if c != 0:
                return dict(property=PID, obligation=ref.name, target=t.name, describe=ref.describe,
                            inputs=trs[k][:c], outputs=outs2[k][:c], confirmed_on_pysim=True, failing_cycle=c - 1,
                            how="the regenerated netlist leaves the model (lock-step counterexample "
                                f"{trace}); the referee rejects this scripted simulator trace of /repo")
        codes3 = check.eval_monitor(ob, packed, bdir, hdr, f"ConfirmLock_{ob.name}")
        return dict(property=PID, obligation=ob.name, target=t.name, describe=ob.describe, inputs=trace, outputs=outs,
                    confirmed_on_pysim=bool(codes3 and codes3[0] != 0),
                    failing_cycle=(codes3[0] - 1) if codes3 and codes3[0] else None,
                    how="lock-step counterexample (netlist output word differs from the model's); the referee accepted all "
                        "sampled traces")
    return confirm


def rlock_dep_once(*a, **k):
    """harness.tie_dep.rlock_dep, with the closure lemma evaluated once (by the kernel's VM at Qed) instead of twice
    (tactic + Qed): same statement, same certified check, half the time."""
    from harness import tie_dep
    ob = tie_dep.rlock_dep(*a, **k)
    ob.thms = ob.thms.replace("Proof. vm_compute. reflexivity. Qed.", "Proof. vm_cast_no_check (@eq_refl bool true). Qed.", 1)
    return ob


def obligations(targets, tier):
    obs = []
    byname = {t.name: t for t in targets}
    for sb, prof in r_configs(tier):
        t = byname[f"ssin_m8_s{sb}"]
        ob = rlock_dep_once(
            f"ob_m8_s{sb}_p{prof}", t,
            St="ss_state", mstep=f"ss_step 8 {EP} {sb}", enc="ss_enc", dec="ss_dec", wf="ss_wf",
            dec_enc="ss_dec_enc", wf_step=f"(ss_wf_step 8 {EP} {sb} ltac:(lia) ltac:(lia))",
            m0="ss_init", wf_m0="exact ss_wf_init.", alpha=f"ss_alpha {prof} {EP} {sb}", fuel=100000,
            describe=f"SuperSpeedStreamInEndpoint(max_packet_size=8, SEQUENCE_NUMBER_BITS={sb}) == model in lock step, all "
                     f"outputs, every trace over the state-dependent alphabet ss_alpha {prof} ({PROFILE_TEXT[prof]})")
        ob.confirm = _confirm(ob, _ref_ob(t))
        obs.append(ob)
    for t in targets:
        mps, sb = t.params["mps"], t.params["sb"]
        if t.role == "tp":
            obs.append(tie.cmon(f"ref_{t.name}", t, mon=f"(xs_monN {mps} {EP} {sb})", m0="(ref_enc ref_init)",
                                describe=f"endpoint + real TransactionPacketGenerator, max_packet_size={mps}: the referee over simulator "
                                         f"traces, with the generator contract it otherwise assumes CHECKED against the real generator, and "
                                         f"every header handed to the link layer an NRDY/ERDY TP of this endpoint"))
            obs.append(tie.corr(f"corr_{t.name}", t, mstep=f"xs_step {mps} {EP} {sb}", m0="xs_init",
                                describe=f"composition of the endpoint model and the C45 generator model vs simulator of the real "
                                         f"composition, max_packet_size={mps}"))
            continue
        obs.append(_ref_ob(t))
        obs.append(tie.corr(f"corr_{t.name}", t, mstep=f"ss_step {mps} {EP} {sb}", m0="ss_init",
                            describe=f"model vs simulator, all outputs every cycle, max_packet_size={mps}, "
                                     f"{'two payload words' if t.role == 'R' else 'random 32-bit payload'}, scripted "
                                     f"producer / host (retries, NumP 0/1, foreign ACKs) / generator"))
    return obs


def tie_theorems(targets, tier):
    s = ""
    byname = {t.name: t for t in targets}
    for sb, prof in r_configs(tier):
        G = byname[f"ssin_m8_s{sb}"].modname
        s += f"""
Theorem C46_netlist_m8_s{sb}_p{prof}_meets_spec : forall tr,
  alpha_ok ss_state (ss_step 8 {EP} {sb}) (ss_alpha {prof} {EP} {sb}) ss_init tr = true ->
  ref_accepts_io 8 {EP} {sb} ref_init (combine tr (run {G}.step {G}.init tr)) = true.
Proof.
  intros tr H. apply ssin_accepted_io; try lia; try reflexivity.
  apply ob_m8_s{sb}_p{prof}_T.tie. exact H.
Qed.
"""
    return s


def tie_theorem_names(targets, tier):
    return [f"C46_netlist_m8_s{sb}_p{prof}_meets_spec" for sb, prof in r_configs(tier)]


LEVEL_TEXT = ("Machine-checked proof about a model of the endpoint, tied to the code. Specification = a referee (observer automaton, "
              "SsIn.ref_step) that sees only the endpoint's interface: it records the stream words accepted and not yet acknowledged, the "
              "sequence number the host expects and the host's protocol position, and judges every cycle: a data packet starts only as "
              "the answer to an IN request (an ACK TP with NumP > 0 or a retry), is exactly the next packet of the stream (first "
              "max_packet_size bytes, or everything up to the end of the transfer; zero-length when the transfer ended on a packet "
              "boundary) with the expected sequence number, length, endpoint and direction in the cycle tx.valid rises, and offers its "
              "words (byte masks, first/last) until each is taken; NRDY answers an IN request exactly when no packet is held; ERDY "
              "exactly once after an NRDY, as soon as a packet is held; every IN request is answered at once (ZLP, NRDY) or by a data "
              "packet two cycles later; the expected sequence number advances only with the host's acknowledgement, a retry re-requests "
              "the same packet, an acknowledgement removes exactly that packet from the pending stream. "
              "(1) C46_endpoint_meets_spec: for every max_packet_size (multiple of 4, 4..1024), endpoint number, sequence-number width and "
              "EVERY input history the referee accepts the model's interface trace up to the first cycle (if any) in which the environment "
              "(stream producer / host / generator contract, see assumptions) is broken -- invariant proof over the product of model and "
              "referee, unbounded in trace length; C46_endpoint_meets_spec_io restates it on packed interface words. "
              "(2) For max_packet_size 8 the netlist regenerated from /repo is proved equal to the model, all outputs, on every trace over "
              "the state-dependent tie alphabets (certified product reachability), hence accepted by the referee "
              "(C46_netlist_m8_s*_p*_meets_spec). (3) At max_packet_size 12 / 1024 (thorough: 4, 8, 12, 16, 64, 1024) model and "
              "simulator of the real module are compared on scripted sessions with random 32-bit data (correspondence, not a proof), and "
              "the referee is evaluated over the simulator traces (runtime oracle); the same for the endpoint wired to the real "
              "TransactionPacketGenerator (max_packet_size 16; thorough 8, 1024), where the generator contract is checked instead of assumed. "
              "(4) C46_exactly_once_in_order (about the referee alone, any endpoint): along every trace the referee judges and accepts, the "
              "bytes accepted from the stream = the bytes of the acknowledged packets in order ++ the bytes still pending, and no "
              "acknowledged packet exceeds max_packet_size.")
LEVEL_NOTE = ("The unchanged tree VIOLATES the property: ./check C46 exits 1 on /repo and 0 with findings/C46-stream-in.diff applied "
              "(LUNA_REPO copy; the 93 baseline tests pass with it). The model is the corrected behaviour. Defects of "
              "SuperSpeedStreamInEndpoint confirmed on the simulator (replays under findings/): sequence number not advanced when the ACK "
              "finds no further packet (C46-seq); header fields (length, sequence, endpoint) not driven in the cycle tx.valid rises for "
              "one-word packets (C46-oneword-header) and for every ZLP (C46-zlp-header); last word withdrawn although tx.ready was low "
              "(C46-lastword-backpressure); an IN request carried by an ACK TP that finds no data is never answered (C46-no-nrdy); "
              "NRDY/ERDY requests carry endpoint number 0 (C46-nrdy-endpoint); further, by reading + model: a retried ZLP advances the "
              "sequence number, erdy_required is never cleared (spurious ERDYs), REQUEST_IN_TOKEN takes the NRDY's `done` pulse for the "
              "ERDY's, and an ACK that coincides with the last word of a short transfer dead-locks the endpoint. "
              "Limits: the R tie is at max_packet_size 8 with SEQUENCE_NUMBER_BITS 1 (quick) / 1 and 2 (thorough) over restricted "
              "alphabets (quick: control profile with payload word 0; the data path is then covered by correspondence only; thorough adds "
              "a data profile); the handshake generator is represented by its interface contract (C45), the endpoint multiplexer "
              "(protocol/endpoint.py, not anchored) is not modelled -- note that it forwards handshakes_out only for send_ack/send_stall, "
              "so NRDY/ERDY requests of a multiplexed endpoint never reach the generator. Safety + bounded response only: that `ready` is "
              "eventually raised is covered by correspondence, not by the referee. "
              "Trusted: Coq kernel + vm_compute, Amaranth elaboration, nir2coq.py/Netlist.v (validated each run against pysim), the "
              "environment contract coded in SsIn.env_phase.")
TECHNIQUE = ("Rocq proof: inductive invariant between a code-shaped endpoint model and a specification referee (observer automaton), "
             "parametric in max_packet_size and unbounded in time; certified product-reachability (state-dependent alphabet) against the "
             "netlist regenerated from source; simulator correspondence and the referee as runtime oracle at realistic sizes; "
             "closed-loop scripted host / producer / generator")
