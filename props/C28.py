"""C28 -- OUT boundary detection (luna/gateware/usb/stream.py: USBOutStreamBoundaryDetector)."""
from harness.core import Target
from harness import tie
from harness import tie_explicit

PID = "C28"
ASSUMPTIONS = [
    "environment (theorems C28_flushed / C28_prefix and the tie corollaries): in the cycle right after the one in which a packet "
    "ended (unprocessed_stream.valid low while a packet was open) no byte is presented (valid & next). The module spends that "
    "cycle in OUTPUT_STROBES and would drop the byte (Example C28_env_needed). Implied by the UTMI rule that RxValid is not "
    "asserted in the cycle RxActive rises and by USBDataPacketReceiver (>= 4 cycles from rx_active to the first stream byte).",
    "a packet is a maximal run starting with a byte (valid & next) and ending with valid low; packets of zero bytes produce "
    "nothing on the processed side (no bytes, no strobes) -- the property text speaks of packet lengths 1..N",
    "strobes 'seen during a packet' = complete_in/invalid_in pulses after the cycle of the packet's first byte up to and including "
    "the cycle in which valid falls (when USBDataPacketReceiver raises packet_complete/crc_mismatch); pulses outside are not reported",
    "the module has no size parameter; the lock-step tie is exhaustive in control inputs (valid,next,complete_in,invalid_in) and "
    "restricted to the payload alphabets listed in obligation_list (8-bit data path); full-width payloads are covered by the "
    "parametric model theorems (payload is an arbitrary N there) plus simulator correspondence on random 8-bit data",
    "the lock-step tie and the correspondence traces are restricted by the same environment assumption (behaviour outside it is "
    "not part of the property; a change that, say, stopped dropping the byte must not raise an alarm)",
    "constructor option domain: the default (usb) and domain='sync' are both tied (target bdet_sync: same model, lock-step over the p4 "
    "alphabet + correspondence); a tree on which a tied configuration can no longer be elaborated is reported as a violation",
]
TIE_IMPORTS = "From LunaModel Require Import BoundaryDet BoundaryDet_proofs.\n"


def mk(name, domain=None):
    def build():
        from luna.gateware.usb.stream import USBOutStreamBoundaryDetector
        d = USBOutStreamBoundaryDetector() if domain is None else USBOutStreamBoundaryDetector(domain=domain)
        u, p = d.unprocessed_stream, d.processed_stream
        return d, [("valid", u.valid), ("next", u.next), ("complete_in", d.complete_in),
                   ("invalid_in", d.invalid_in), ("payload", u.payload)], \
                  [("o_valid", p.valid), ("o_next", p.next), ("first", d.first), ("last", d.last),
                   ("complete_out", d.complete_out), ("invalid_out", d.invalid_out), ("o_payload", p.payload)]
    return Target(name, build)


def targets(tier):
    # the constructor's `domain` option: the same module placed in the sync domain must be the same machine
    ts = [mk("bdet"), mk("bdet_sync", domain="sync")]
    ts[0].expect_clocks = ["usb_clk"]; ts[1].expect_clocks = ["clk"]
    return ts


# payload alphabets of the lock-step obligations (0 must be a member: the flush cycles are all-zero words)
ALPHABETS_QUICK = {"p4": [0x00, 0x5A, 0xA5, 0xFF]}
ALPHABETS_THOROUGH = {"p4": [0x00, 0x5A, 0xA5, 0xFF],
                      "walk": [0x00, 0x01, 0x02, 0x04, 0x08, 0x10, 0x20, 0x40, 0x80, 0xFF]}


def alphabets(tier):
    return ALPHABETS_QUICK if tier == "quick" else ALPHABETS_THOROUGH


def _cyc(valid=0, nxt=0, c=0, i=0, payload=0):
    return {"valid": valid, "next": nxt, "complete_in": c, "invalid_in": i, "payload": payload}


def keep_env(tr):
    """Enforce the environment assumption on a generated history: in the cycle right after a packet ended
    (valid low while a packet was open) no byte is presented -- `next` is cleared there.  Behaviour outside
    the assumption is not part of the property (the module drops such a byte), so neither the lock-step tie
    nor the correspondence looks at it."""
    ph = 0          # 0 idle, 1 in packet, 2 just ended
    for c in tr:
        if ph == 2 and c["valid"] and c["next"]:
            c["next"] = 0
        if ph == 0:
            ph = 1 if (c["valid"] and c["next"]) else 0
        elif ph == 1:
            ph = 2 if not c["valid"] else 1
        else:
            ph = 0
    return tr


def packet_trace(rng, npackets, small=None):
    """A receive history: idle, packets with byte gaps (incl. zero-length packets: valid without next),
    strobes mostly at the packet end, sometimes elsewhere; inter-packet gaps of 0.. cycles."""
    pay = (lambda: rng.choice(small)) if small else (lambda: rng.randrange(256))
    tr = []
    for _ in range(npackets):
        for _ in range(rng.choice([0, 1, 1, 2, 3, 5])):
            tr.append(_cyc(0, rng.random() < 0.1, rng.random() < 0.1, rng.random() < 0.1, pay()))
        n = rng.choice([0, 1, 1, 2, 2, 3, 4, 7, 8, 9, 16, 33, 64])
        # rx_active-style lead-in: valid high without next
        for _ in range(rng.choice([0, 0, 1, 2])):
            tr.append(_cyc(1, 0, rng.random() < 0.05, rng.random() < 0.05, pay()))
        for k in range(n):
            tr.append(_cyc(1, 1, rng.random() < 0.05, rng.random() < 0.05, pay()))
            for _ in range(rng.choice([0, 0, 0, 1, 2, 5])):
                tr.append(_cyc(1, 0, rng.random() < 0.05, rng.random() < 0.05, pay()))
        r = rng.random()
        tr.append(_cyc(0, rng.random() < 0.1, r < 0.6, 0.6 <= r < 0.85, pay()))
    for _ in range(4):
        tr.append(_cyc())
    return keep_env(tr)


def traces(target, rng, tier):
    n = 24 if tier == "quick" else 150
    small = sorted({v for a in alphabets(tier).values() for v in a})
    out = []
    for k in range(n):
        out.append(packet_trace(rng, rng.randint(1, 5), small=small if k % 4 == 3 else None))
    # adversarial: unstructured control inputs, full-width data
    for k in range(n // 3):
        p = rng.choice([0.2, 0.5, 0.8])
        out.append(keep_env([_cyc(int(rng.random() < p), int(rng.random() < 0.5), int(rng.random() < 0.2),
                                  int(rng.random() < 0.2), rng.randrange(256)) for _ in range(rng.randint(1, 120))]))
    return out


def coq_list(xs):
    return "[" + "; ".join(str(x) for x in xs) + "]"


def alpha_expr(alpha):
    """all 16 control patterns (valid,next,complete_in,invalid_in = bits 0..3) x the payload alphabet (bits 4..11)"""
    return f"flat_map (fun p => map (fun c => c + 16 * p) (range_bits 4)) {coq_list(alpha)}"


def obligations(targets, tier):
    obs = []
    for t in targets:
        obs += _obligations_of(t, tier if t is targets[0] else "quick")
    return obs


def _obligations_of(t, tier):
    obs = []
    for nm, alpha in alphabets(tier).items():
        obs.append(tie_explicit.rlock_alpha(
            f"ob_{t.name}_{nm}", t,
            St="bd_state", mstep="bd_mstep", enc="bd_enc", dec="bd_dec", wf="bd_wf",
            dec_enc="bd_dec_enc", wf_step="bd_wf_step", m0="bd_init", wf_m0="exact bd_wf_init.",
            env="bd_menv", alphabet=alpha_expr(alpha), fuel=100000,
            describe=f"USBOutStreamBoundaryDetector == FSM model in lock step, all traces over every valid/next/complete_in/"
                     f"invalid_in pattern with payloads from {[hex(a) for a in alpha]} that keep the environment assumption"))
    obs.append(tie.corr(f"corr_{t.name}", t, mstep="bd_mstep", m0="bd_init",
                        describe="FSM model vs simulator, random full-width (8-bit) payloads, structured packets + unstructured noise"))
    return obs


def tie_theorems(targets, tier):
    t = targets[0]
    s = ""
    for nm, alpha in alphabets(tier).items():
        ob = f"ob_{t.name}_{nm}"
        s += f"""
Theorem C28_{t.name}_{nm} : forall tr,
  Forall (fun w => In w {ob}.alpha) tr ->
  bd_env (map bd_in_of tr) = true ->
  events (map bd_out_of (run {t.modname}.step {t.modname}.init (tr ++ [0; 0; 0]))) = expected (map bd_in_of tr).
Proof.
  intros tr H He.
  assert (Z : In 0 {ob}.alpha) by (apply {ob}_T.alpha_mem; vm_compute; reflexivity).
  rewrite ({ob}_T.tie (tr ++ [0; 0; 0])).
  - apply bd_packed_flushed. exact He.
  - apply Forall_app. split; [exact H | repeat (constructor; [exact Z|]); constructor].
  - apply bd_env_ok. rewrite map_app. change (map bd_in_of [0; 0; 0]) with flush. apply bd_env_flush. exact He.
Qed.
"""
    return s


def tie_theorem_names(targets, tier):
    return [f"C28_{targets[0].name}_{nm}" for nm in alphabets(tier)]


LEVEL_TEXT = ("Machine-checked proof. (1) For the FSM model of USBOutStreamBoundaryDetector (three states, every register of the module; "
              "payloads arbitrary) and every receive history -- any number of packets of any length >= 1, any gaps between bytes, "
              "complete/invalid strobes at any point -- that keeps the one environment assumption 'no byte in the cycle right after a "
              "packet ended': after three idle cycles the processed stream has shown exactly the expected event list (each packet's bytes "
              "in order, first on the first byte, last on the final byte, then the packet's complete/invalid report, nothing else) "
              "[C28_flushed]; at every cut of a history it has shown a prefix of that list, so no strobe is reported before (or in the same "
              "cycle as) the last byte of its packet [C28_prefix]; processed.next implies processed.valid [C28_next_implies_valid]. "
              "Induction over the trace with a simulation invariant; unbounded in trace and packet length. "
              "(2) The netlist regenerated from /repo is proved equal to that model, output word for output word, on all traces of any "
              "length over all control-input patterns with payloads from a finite alphabet that keep the same environment assumption "
              "(certified product reachability), giving "
              "C28_bdet_<alphabet>: netlist events = specification. (3) Full-width payloads: simulator correspondence on random 8-bit data.")
LEVEL_NOTE = ("Trusted: Coq kernel + vm_compute, Amaranth elaboration to NIR, nir2coq.py/Netlist.v (validated each run against Amaranth's "
              "simulator). The kernel-checked netlist=model theorem restricts payload bytes to the listed alphabets (quick: 00/5A/A5/FF; "
              "thorough adds walking-one bytes); that the byte path is the same for all 256 values rests on the model theorem (payload "
              "arbitrary) plus correspondence, not on a theorem about the netlist. Zero-length packets produce no processed-side events "
              "(their strobes are not forwarded); the property text covers lengths 1..N. Strobes in the cycle of a packet's first byte or "
              "in the cycle after valid fell are not attributed to the packet (cannot happen with USBDataPacketReceiver).")
TECHNIQUE = ("Rocq proof: induction over the receive history with a model/specification simulation invariant (packet-level event "
             "specification) + certified product-reachability (lock-step) against the netlist regenerated from source + simulator correspondence")
