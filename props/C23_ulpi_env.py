"""Shared by props/C22.py, C23.py, C24.py: the UTMITranslator target builder (internal signals exported as
output ports, no change to /repo) and a closed-loop environment -- a ULPI PHY model with a register file plus a
UTMI-side driver -- that is simulated against the real translator to RECORD input traces.  The recorded traces
are plain open-loop input lists, replayed by the harness like any other trace (so they stay reproducible), but
their NXT/DIR/DATA timing is that of a protocol-abiding PHY reacting to what the link actually drove.
"""
from amaranth.hdl.rec import Record

CTRL = [("xcvr_select", 2), ("term_select", 1), ("suspend", 1), ("id_pullup", 1), ("dp_pulldown", 1),
        ("dm_pulldown", 1), ("chrg_vbus", 1), ("dischrg_vbus", 1), ("use_external_vbus_indicator", 1)]
CTRL_DEFAULT = dict(xcvr_select=1, term_select=0, suspend=0, id_pullup=0, dp_pulldown=1, dm_pulldown=1,
                    chrg_vbus=0, dischrg_vbus=0, use_external_vbus_indicator=1, op_mode=0)
IN_NAMES = ["data_i", "nxt", "dir", "tx_data", "tx_valid", "op_mode"] + [n for n, _ in CTRL]


def build_translator():
    """-> (module, ins, parts): the elaborated UTMITranslator (a Module; elaborating it here gives access to the
    sub-modules created inside elaborate()), its input ports in the fixed order IN_NAMES, and a dict of the
    objects whose signals can be exported as outputs."""
    from luna.gateware.interface.ulpi import UTMITranslator
    ulpi = Record([("data", [("i", 8), ("o", 8), ("oe", 1)]), ("nxt", [("i", 1)]), ("stp", [("o", 1)]),
                   ("dir", [("i", 1)])])
    t = UTMITranslator(ulpi=ulpi, handle_clocking=False)
    m = t.elaborate(None)
    ins = [("data_i", ulpi.data.i), ("nxt", ulpi.nxt.i), ("dir", ulpi.dir.i), ("tx_data", t.tx_data),
           ("tx_valid", t.tx_valid), ("op_mode", t.op_mode)] + [(n, getattr(t, n)) for n, _ in CTRL]
    parts = dict(t=t, ulpi=ulpi, tt=m.submodules.transmit_translator, rw=m.submodules.register_window,
                 ct=m.submodules.control_translator, rx=m.submodules.rxevent_decoder)
    return m, ins, parts


def base_outs(parts):
    """pins + UTMI transmit handshake: the outputs the environment reacts to (must be exported by every target
    that uses closed_loop)."""
    u, t = parts["ulpi"], parts["t"]
    return [("data_o", u.data.o), ("oe", u.data.oe), ("stp", u.stp.o), ("tx_ready", t.tx_ready)]


def func_ctrl(c):
    return c["xcvr_select"] | (c["term_select"] << 2) | (c["op_mode"] << 3) | ((1 - c["suspend"]) << 6)


def otg_ctrl(c):
    return (c["id_pullup"] | (c["dp_pulldown"] << 1) | (c["dm_pulldown"] << 2) | (c["dischrg_vbus"] << 3) |
            (c["chrg_vbus"] << 4) | (c["use_external_vbus_indicator"] << 7))


class World:
    """PHY + UTMI driver.  inputs(prev) -> input dict of the next cycle, given the translator's outputs of the
    previous cycle (None in cycle 0): both sides are registered, as real hardware is."""

    def __init__(self, rng, *, p_rx=0.02, p_tx=0.05, p_ctrl=0.0, nxt_delay=(0, 0, 0, 1, 3), throttle=None,
                 ctrl=None, abort_cmd=0.0, abort_tx=0.0, rx_kind="mixed", tx_len=(1, 2, 3, 4, 9),
                 ctrl_fields=None, settle=0, utmi_abandon=0.0, freeze_at=None,
                 p_revert=0.0, revert_k=(1, 2, 3, 4, 5, 6, 8), p_tx_after=0.0, tx_after=(0, 1, 2, 3, 4, 5, 6, 8)):
        self.rng = rng
        self.p_rx, self.p_tx, self.p_ctrl = p_rx, p_tx, p_ctrl
        self.nxt_delay = nxt_delay
        self.throttle = throttle if throttle is not None else rng.choice([1.0, 1.0, 0.7, 0.3])
        self.abort_cmd, self.abort_tx = abort_cmd, abort_tx
        self.rx_kind = rx_kind
        self.tx_len = tx_len
        self.ctrl = dict(CTRL_DEFAULT); self.ctrl.update(ctrl or {})
        self.ctrl_fields = ctrl_fields or ["term_select", "xcvr_select", "op_mode", "suspend", "dp_pulldown",
                                           "dm_pulldown", "id_pullup", "chrg_vbus", "dischrg_vbus"]
        self.settle = settle          # cycles without a new transmission after a control change
        self.utmi_abandon = utmi_abandon
        # directed: a control change is undone after k cycles (while its register write is still starting / on the bus),
        # and a transmission is requested a few cycles after a change
        self.p_revert, self.revert_k, self.p_tx_after, self.tx_after = p_revert, revert_k, p_tx_after, tx_after
        self.revert = None; self.force_tx = None
        self.freeze_at = freeze_at    # from this cycle on: no new control changes, transmissions or PHY-initiated bursts
        # PHY
        self.state = "idle"; self.wait = 0; self.addr = None; self.dir = 0
        self.regs = {}                # PHY register file: address -> value written
        self.writes = []              # (cycle, address, value)
        self.rxq = []                 # remaining (nxt, data) cycles of the PHY-driven burst
        self.rxcmd = 0x0C             # line state 0, vbus valid
        self.accept_data = False
        # UTMI driver
        self.pkt = None; self.idx = 0; self.quiet = 0
        self.t = 0
        self.tx_packets = []          # packets handed to the translator (mode, bytes)

    # ---- PHY-driven bursts (DIR high) -------------------------------------------------------------
    def _rx_burst(self):
        rng = self.rng
        kind = self.rx_kind if self.rx_kind != "mixed" else rng.choice(["rxcmd", "packet", "packet", "abort"])
        ls = rng.randrange(4); vb = rng.choice([0, 1, 2, 3, 3, 3])
        base = ls | (vb << 2) | (rng.randrange(2) << 6)
        q = []
        if kind == "rxcmd":                       # status update only
            q.append((0, rng.randrange(256)))     # turnaround
            for _ in range(rng.randint(1, 3)):
                q.append((0, base))
        else:
            with_nxt = rng.random() < 0.6
            q.append((1 if with_nxt else 0, rng.randrange(256)))          # turnaround (NXT high: receive starts)
            if not with_nxt or rng.random() < 0.5:
                for _ in range(rng.randint(1, 2)):
                    q.append((0, base | 0x10))                            # RxCmd: RxActive
            n = rng.choice([0, 1, 2, 3, 5, 9])
            for k in range(n):
                while rng.random() < 0.3:
                    q.append((0, base | 0x10 | (0x20 if rng.random() < 0.05 else 0)))
                q.append((1, rng.randrange(256)))
            if kind == "packet" and rng.random() < 0.7:
                for _ in range(rng.randint(1, 2)):
                    q.append((0, base))                                   # RxCmd: RxActive low
        self.rxcmd = base
        return q

    def _phy(self, prev):
        """-> (dir, nxt, data_i) of this cycle."""
        rng = self.rng
        link = prev is not None and self.dir == 0       # the link drove the bus in the previous cycle
        byte = prev["data_o"] if link else 0
        stp = prev["stp"] if link else 0
        if self.state == "rx":
            if self.rxq:
                nxt, d = self.rxq.pop(0)
                return 1, nxt, d
            self.state = "idle"; self.dir = 0
            return 0, 0, rng.randrange(256)              # turnaround back to the link
        # capture register-write data / transmit bookkeeping from the previous cycle
        if self.state == "rw_data" and self.accept_data:
            self.wdata = byte; self.state = "rw_stp"; self.accept_data = False
        if self.state == "rw_stp" and stp:
            self.regs[self.addr] = self.wdata; self.writes.append((self.t, self.addr, self.wdata))
            self.state = "idle"
            return 0, 0, 0
        if self.state == "tx" and stp:
            self.state = "idle"
            return 0, 0, 0
        # PHY takes the bus?
        p = {"idle": self.p_rx, "cmdwait": self.abort_cmd, "rw_data": self.abort_cmd, "rw_stp": self.abort_cmd,
             "tx": self.abort_tx}.get(self.state, 0.0)
        if rng.random() < p:
            self.rxq = self._rx_burst(); self.state = "rx"; self.dir = 1
            nxt, d = self.rxq.pop(0)
            return 1, nxt, d
        if self.state == "idle":
            if link and (byte >> 6) in (1, 2):
                self.kind = byte >> 6; self.addr = byte & 0x3F
                self.state = "cmdwait"; self.wait = rng.choice(self.nxt_delay)
            else:
                return 0, 0, 0
        if self.state == "cmdwait":
            if self.wait > 0:
                self.wait -= 1
                return 0, 0, 0
            # NXT now: the command is accepted if the link still holds it in this cycle
            if self.kind == 1:
                self.state = "tx"
            else:
                self.state = "rw_data"; self.wait = rng.choice((0, 0, 0, 1)); self.accept_data = False
            return 0, 1, 0
        if self.state == "tx":
            return 0, int(rng.random() < self.throttle), 0
        if self.state == "rw_data":
            if self.wait > 0:
                self.wait -= 1
                return 0, 0, 0
            self.accept_data = True
            return 0, 1, 0
        return 0, 0, 0

    # ---- UTMI side ---------------------------------------------------------------------------------
    def _utmi(self, prev):
        rng = self.rng
        if self.pkt is not None:
            if prev is not None and prev["tx_ready"]:
                self.idx += 1
            elif self.idx == 0 and rng.random() < self.utmi_abandon:
                self.pkt = None
                return 0, rng.randrange(256)
            if self.idx >= len(self.pkt):
                self.pkt = None
                return 0, rng.randrange(256)
            return 1, self.pkt[self.idx]
        forced = False
        if self.force_tx is not None:
            if self.force_tx == 0:
                forced = True; self.force_tx = None
            else:
                self.force_tx -= 1
        if self.quiet > 0 and not forced:
            self.quiet -= 1
            return 0, 0
        if forced or rng.random() < self.p_tx:
            n = rng.choice(self.tx_len)
            pid = rng.choice([0xC3, 0x4B, 0xD2, 0x5A, 0x1E, 0x69, rng.randrange(256)])
            self.pkt = [pid] + [rng.randrange(256) for _ in range(n - 1)]
            self.idx = 0
            self.tx_packets.append((self.ctrl["op_mode"], list(self.pkt)))
            return 1, self.pkt[0]
        return 0, 0

    def inputs(self, prev):
        rng = self.rng
        if self.freeze_at is not None and self.t == self.freeze_at:
            self.p_ctrl = self.p_tx = self.p_rx = 0.0; self.abort_cmd = self.abort_tx = 0.0
        if self.p_ctrl and self.pkt is None and rng.random() < self.p_ctrl:
            f = rng.choice(self.ctrl_fields)
            old = self.ctrl[f]
            self.ctrl[f] = rng.randrange(4 if f in ("xcvr_select", "op_mode") else 2)
            self.quiet = max(self.quiet, self.settle)
            if self.p_revert and rng.random() < self.p_revert:
                self.revert = [f, old, rng.choice(self.revert_k)]
            if self.p_tx_after and rng.random() < self.p_tx_after:
                self.force_tx = rng.choice(self.tx_after) + (self.revert[2] if self.revert and rng.random() < 0.7 else 0)
        elif self.revert is not None:
            self.revert[2] -= 1
            if self.revert[2] <= 0:
                self.ctrl[self.revert[0]] = self.revert[1]; self.revert = None
        d, nxt, data = self._phy(prev)
        self.dir = d
        v, b = self._utmi(prev)
        cyc = dict(data_i=data, nxt=nxt, dir=d, tx_data=b, tx_valid=v)
        cyc.update(self.ctrl)
        self.t += 1
        return cyc


def closed_loop(build, worlds, lengths):
    """Simulate the real translator against each world; return the recorded input traces (lists of dicts) and
    the worlds (for bookkeeping such as the PHY register file)."""
    from amaranth.sim import Simulator
    elab, ins, outs = build()
    sim = Simulator(elab)
    sim.add_clock(1e-6, domain="usb")
    insig = dict(ins); outsig = list(outs)
    holder = {}

    async def tb(ctx):
        w, n = holder["w"], holder["n"]
        prev = None; rec = []
        for _ in range(n):
            cyc = w.inputs(prev)
            for k, v in cyc.items():
                ctx.set(insig[k], v)
            prev = {k: ctx.get(s) for k, s in outsig}
            rec.append(cyc)
            await ctx.tick("usb")
        holder["rec"] = rec
    sim.add_testbench(tb)
    traces = []
    for w, n in zip(worlds, lengths):
        holder["w"] = w; holder["n"] = n
        sim.reset(); sim.run()
        traces.append(holder["rec"])
    return traces
