"""C47 -- isochronous timestamp packet decode (luna/gateware/usb/usb3/protocol/timestamp.py:
TimestampPacketReceiver)."""
from harness.core import Target
from harness import tie

PID = "C47"
ASSUMPTIONS = [
    "input word per ss cycle = header_sink.valid + 2*header.dw0 (the receiver reads nothing else of the header queue); "
    "no environment restriction in the parametric theorems (all 2^33 words, all histories)",
    "observation: the two reported values are zero-extended to 16 bits by a wrapper in props/C47.py, so the check "
    "compares numbers, independent of the widths the code declares (narrow registers show up as wrong numbers)",
    "R tie alphabet (Itp.itp_alpha, 396 words): valid in {0,1} x type in {12,4,8,0,13,28} x fields in {all-0, all-1, "
    "0x2AAA/0x0AAA, 0x1555/0x1555, one field all-1, walking one through all 27 field bits}; full-width random words "
    "are covered by the correspondence obligation only",
]
TIE_IMPORTS = "From LunaLib Require Import SsWords.\nFrom LunaModel Require Import Itp Itp_proofs.\n"

OBS_W = 16
ITP = 12


def mk():
    def build():
        from amaranth import Elaboratable, Module, Signal
        from luna.gateware.usb.usb3.protocol.timestamp import TimestampPacketReceiver

        class Wrap(Elaboratable):
            """TimestampPacketReceiver with its two value outputs zero-extended to fixed 16-bit ports."""
            def __init__(self):
                self.dut = TimestampPacketReceiver()
                self.counter = Signal(OBS_W); self.delta = Signal(OBS_W)
            def elaborate(self, platform):
                m = Module()
                m.submodules.dut = self.dut
                m.d.comb += [self.counter.eq(self.dut.bus_interval_counter), self.delta.eq(self.dut.delta)]
                return m
        w = Wrap(); d = w.dut
        return (w,
                [("valid", d.header_sink.valid), ("dw0", d.header_sink.header.dw0)],
                [("ready", d.header_sink.ready), ("update", d.update_received),
                 ("counter", w.counter), ("delta", w.delta)])
    return Target("itp", build)


def targets(tier):
    return [mk()]


def dw0(ty, c, d):
    return (ty & 31) | ((c & 0x3FFF) << 5) | ((d & 0x1FFF) << 19)


def traces(target, rng, tier):
    n = 40 if tier == "quick" else 400
    out = []
    edge = [0, 1, 2, 0x3FFF, 0x2000, 0x1FFF, 0x1000, 0x2AAA, 0x1555]
    for k in range(n):
        style = k % 4
        tr = []
        for _ in range(rng.randint(1, 60)):
            if style == 0:      # mostly timestamp packets, random fields
                ty = ITP if rng.random() < 0.6 else rng.choice([0, 4, 8, 13, 28, rng.randrange(32)])
                w = dw0(ty, rng.randrange(1 << 14), rng.randrange(1 << 13)); v = int(rng.random() < 0.8)
            elif style == 1:    # boundary field values
                ty = ITP if rng.random() < 0.7 else rng.randrange(32)
                w = dw0(ty, rng.choice(edge), rng.choice(edge)); v = int(rng.random() < 0.7)
            elif style == 2:    # completely random words (adversarial)
                w = rng.getrandbits(32); v = rng.getrandbits(1)
            else:               # sparse traffic
                ty = rng.choice([ITP, 4, 8, 0])
                w = dw0(ty, rng.randrange(1 << 14), rng.randrange(1 << 13)); v = int(rng.random() < 0.15)
            tr.append({"valid": v, "dw0": w})
        out.append(tr)
    return out


MSTEP = "itp_step 14 13"


def obligations(targets, tier):
    t = targets[0]
    return [
        tie.rmon("ob_itp", t,
                 mon=f"rl_mon itp_state ({MSTEP}) itp_enc itp_dec (fun _ _ => true)",
                 m0="itp_enc itp_init", alpha_bits=33, alphabet="itp_alpha", fuel=100000,
                 describe="TimestampPacketReceiver == model with 14/13-bit registers, in lock step, for every trace over "
                          "the 396 representative input words"),
        tie.corr("corr_itp", t, mstep=MSTEP, m0="itp_init",
                 describe="model vs simulator, full-width random header words"),
    ]


def tie_theorems(targets, tier):
    G = targets[0].modname
    return f"""
Theorem C47_netlist_meets_spec : forall tr, Forall (fun i => In i itp_alpha) tr ->
  run {G}.step {G}.init tr = spec_trace [] tr.
Proof.
  intros tr H.
  rewrite (R_lockstep {G}.step itp_state ({MSTEP}) itp_enc itp_dec itp_wf (fun _ _ => true)
             itp_dec_enc (itp_wf_step 14 13 ltac:(lia)) itp_alpha ob_itp_T.L {G}.init itp_init
             ob_itp_T.L_closed ob_itp_T.init_in itp_wf_init tr H (env_ok_true _ _ _ _)).
  apply itp_from_reset; lia.
Qed.
"""


def tie_theorem_names(targets, tier):
    return ["C47_netlist_meets_spec"]


LEVEL_TEXT = ("Machine-checked proof about a model, tied to the code. (1) For every register width wb >= 14, wd >= 13, every "
              "input history over all 2^33 (valid, dw0) words: the model of TimestampPacketReceiver outputs exactly the "
              "specification -- ready iff a timestamp packet is offered, update one cycle after each timestamp packet, counter/"
              "delta = the full 14-/13-bit fields of the latest timestamp packet (C47_itp_decodes_in_full, C47_itp_reported); "
              "with the 1-bit registers the code originally declared the model provably fails the specification "
              "(C47_one_bit_registers_refuted). (2) The netlist regenerated from /repo is proved equal to the specification on "
              "every trace (any length) over 396 representative input words (C47_netlist_meets_spec, certified product "
              "reachability), and compared with the model on full-width random words (correspondence, not a proof).")
LEVEL_NOTE = ("Defect found by this check in the tree as first examined: both outputs were declared Signal() (1 bit), so only bit 0 of each "
              "field was reported (findings/C47-onebit.json, patch findings/C47-onebit.diff); fixed in /repo by commit c2e032e -- the "
              "check exits 1 before that commit and 0 on the current tree. The R tie quantifies over a finite representative alphabet, not over all 2^33 words "
              "(the data path is 27 independent wires; the walking-one words exercise each). "
              "Trusted: Coq kernel + vm_compute, Amaranth elaboration, nir2coq.py/Netlist.v (validated each run against pysim).")
TECHNIQUE = ("Rocq proof: history-indexed specification + invariant induction (all widths >= 14/13), refutation witness for the "
             "declared widths, certified product-reachability over a representative alphabet against the regenerated netlist, "
             "simulator correspondence on random words")
