"""C55 -- strobe stretching (luna/gateware/utils/cdc.py: stretch_strobe_signal)."""
from harness.core import Target
from harness import tie

PID = "C55"
ASSUMPTIONS = [
    "tie configurations: to_cycles in {1,2,3,5} (quick) / {1..8,16} (thorough), both allow_delay modes; correspondence (model vs simulator) also at 12, 17, 32, 33 (quick) / 12, 17, 31, 32, 33, 64, 100, 128 (thorough) -- lengths around and at powers of two, where a counter-based implementation would be one bit short; "
    "the parametric theorem C55_stretch_exact covers every to_cycles >= 1 for the hand model",
    "allow_delay with to_cycles = 1 passes the strobe through undelayed (delay is permitted, not required)",
]
TIE_IMPORTS = "From LunaModel Require Import Stretch Stretch_proofs.\n"


def mk(n, delay):
    def build():
        from amaranth import Elaboratable, Module, Signal
        from luna.gateware.utils.cdc import stretch_strobe_signal

        class Stretch(Elaboratable):
            def __init__(self):
                self.strobe = Signal(); self.output = Signal()
            def elaborate(self, platform):
                m = Module()
                stretch_strobe_signal(m, self.strobe, to_cycles=n, output=self.output, allow_delay=delay)
                return m
        d = Stretch()
        return d, [("strobe", d.strobe)], [("output", d.output)]
    t = Target(f"stretch_n{n}_{'d' if delay else 'nd'}", build)
    t.params = dict(n=n, delay=delay)
    return t


def targets(tier):
    ns = [1, 2, 3, 5] if tier == "quick" else [1, 2, 3, 4, 5, 6, 7, 8, 16]
    ts = [mk(n, d) for n in ns for d in (False, True)]
    for t in ts: t.big = False
    big = [mk(n, d) for n in ([12, 17, 32, 33] if tier == "quick" else [12, 17, 31, 32, 33, 64, 100, 128]) for d in (False, True)]
    for t in big: t.big = True
    return ts + big


def traces(target, rng, tier):
    n = 30 if tier == "quick" else 200
    out = []
    for k in range(n):
        p = rng.choice([0.05, 0.2, 0.5, 0.9])
        out.append([{"strobe": int(rng.random() < p)} for _ in range(rng.randint(1, 60 + 3 * target.params['n']))])
    return out


def obligations(targets, tier):
    obs = []
    for t in targets:
        n = t.params["n"]; d = "true" if t.params["delay"] else "false"
        if t.big:
            obs.append(tie.corr(f"corr_{t.name}", t, mstep=f"stretch_mstep {n} {d}", m0=f"sr_init {n} {d}",
                                describe=f"list model vs simulator at to_cycles={n} (beyond the R tie); the model is the specification for "
                                         f"every n and every trace (C55_stretch_exact), so a differing trace is a failing input",
                                spec_exact=True))
            continue
        obs.append(tie.rlock(
            f"ob_{t.name}", t,
            St="list bool", mstep=f"stretch_mstep {n} {d}", enc="stretch_enc", dec=f"stretch_dec {n} {d}",
            wf=f"stretch_wf {n} {d}", dec_enc=f"stretch_dec_enc {n} {d}", wf_step=f"stretch_wf_step {n} {d}",
            m0=f"sr_init {n} {d}", wf_m0="apply repeat_length.",
            alpha_bits=1, fuel=100000,
            describe=f"stretch_strobe_signal(to_cycles={n}, allow_delay={t.params['delay']}) == list model, all strobe traces"))
    return obs


def tie_theorems(targets, tier):
    s = ""
    for t in targets:
        if t.big: continue
        n = t.params["n"]; d = "true" if t.params["delay"] else "false"
        s += f"""
Theorem C55_{t.name} : forall tr, Forall (fun i => i < 2 ^ N.of_nat 1) tr ->
  run {t.modname}.step {t.modname}.init tr = map b2n (spec_trace {n} {d} [] (map N.odd tr)).
Proof.
  intros tr H. rewrite (ob_{t.name}_T.tie tr H (env_ok_true _ _ _ _)).
  rewrite stretch_mrun. rewrite stretch_from_reset by lia. reflexivity.
Qed.
"""
    return s


def tie_theorem_names(targets, tier):
    return [f"C55_{t.name}" for t in targets if not t.big]

LEVEL_TEXT = ("Machine-checked proof. (1) For every stretch length n >= 1, both delay modes and every strobe pattern, "
              "the hand model's output equals the windowed-OR specification (theorem C55_stretch_exact, induction over the trace). "
              "(2) For each tie configuration the netlist regenerated from /repo is proved equal, on all input traces of any length, "
              "to that model by a kernel-checked closure of the product state space (R_lockstep), giving C55_<cfg>: netlist output = specification.")
LEVEL_NOTE = ("Trusted: Coq kernel + vm_compute, Amaranth elaboration to NIR, nir2coq.py/Netlist.v (validated each run against Amaranth's simulator). "
              "Tie is per configuration (to_cycles in {1,2,3,5} quick; {1..8,16} thorough); other lengths rest on the parametric model theorem.")
TECHNIQUE = "Rocq proof: parametric induction on the model + certified product-reachability (lock-step) against the netlist regenerated from source"
