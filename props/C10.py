"""C10 -- unsupported or unclaimed control requests are STALLed, never answered
(luna/gateware/usb/request/standard.py: StandardRequestHandler UNHANDLED / CLEAR_FEATURE;
 luna/gateware/usb/usb2/request.py: USBRequestHandlerMultiplexer fallback StallOnlyRequestHandler; as wired by
 luna/gateware/usb/usb2/control.py: USBControlEndpoint).  Targets, alphabets and trace generators are those of props/C07.py."""
from harness import tie, tie_explicit
from props import C07 as base

PID = "C10"
TIE_IMPORTS = ("From LunaLib Require Import PackN.\n"
               "From LunaModel Require Import CtlXfer CtlXfer_proofs CtlStall CtlStall_proofs.\n")
ASSUMPTIONS = [
    "same machine and targets as C07 (interface-event level; SETUP decoder, GET_DESCRIPTOR handler and StreamSerializer are port-only "
    "stubs; see props/C07.py ASSUMPTIONS[0])",
    "the theorem C10_unsupported_requests_stalled has NO environment hypothesis: it holds from every state and for every input history; "
    "a request is watched from the cycle after its SETUP packet is reported (setup.received, whatever the token context) while its eight "
    "setup bytes stay presented and no further SETUP packet is reported -- which is how the SETUP decoder drives the record (C06)",
    "reading notes: (1) 'never an ACK' excludes the SETUP decoder's ACK of the SETUP packet itself and the stage FSM's ACK to a PING token "
    "in an OUT phase ([USB2.0 8.5.1], sent whatever the request is); no OUT data packet is ever ACKed; (2) 'STALLed at its first data-stage "
    "IN token or at its status stage': LUNA's UNHANDLED state STALLs the FIRST request for data/status and then returns to idle, later tokens "
    "of that transfer get no answer at all; unclaimed (non-standard / skiplisted) requests are STALLed at every such request by the fallback; "
    "both are stated exactly (stall_cycle_ok); (3) an OUT data stage of an unsupported request is not STALLed by LUNA (the data packets are "
    "left unanswered until the status stage), which the property text allows",
    "skiplist: a predicate of the eight setup bytes (hypothesis skip_ext; true of every LUNA skiplist, which are functions of the SetupPacket)",
    "netlist = model is kernel-checked over finite input alphabets (see C07); other field values by correspondence and by the specification "
    "monitor on simulator traces (requests drawn from templates and at random over all fields)",
]

targets = base.targets
traces = base.traces


def obligations(targets, tier):
    obs = []
    for t in targets:
        if t.kind == "e2e":
            obs += base.e2e_obligations(t, targets[0], ("stall",))
            continue
        P = base.coq_params(t)
        if t.kind == "small":
            al = base.alphabet(t.params["ep"], tier)
            obs.append(tie_explicit.rlock_alpha(
                f"ob_{t.name}", t, St="cx_state", mstep=f"cx_stepN {P}", enc="cx_enc", dec="cx_dec",
                wf="(fun _ => True)", dec_enc="(fun s _ => cx_dec_enc s)", wf_step="(fun _ _ _ => I)",
                m0="cx_init", wf_m0="exact I.", alphabet="[" + "; ".join(str(w) for w in al) + "]", fuel=100000,
                describe=f"USBControlEndpoint(endpoint {t.params['ep']}) + StandardRequestHandler(max_packet_size {t.params['mps']}"
                         f"{', skiplist request ' + str(t.params['skip_req']) if t.params['skip_req'] is not None else ''}) + multiplexer + "
                         f"fallback (sliced netlist) == model, all traces over {len(al)} input words"))
        obs.append(tie.cmon(f"stall_{t.name}", t, mon=f"(c10_mon {t.params['ep']} {base.skip_expr(t)})", m0="(st10_enc st10_0)",
                            describe="specification (unsupported / unclaimed requests: quiet, STALL exactly at the data/status requests) "
                                     "evaluated over simulator traces of the real module"))
        obs.append(tie.corr(f"corr_{t.name}", t, mstep=f"cx_stepN {P}", m0="cx_init",
                            describe="model vs simulator of the real module, every output of every cycle"))
    return obs


def tie_theorems(targets, tier):
    s = ""
    for t in targets:
        if t.kind != "small":
            continue
        ep = t.params["ep"]; sk = base.skip_expr(t)
        ext = "exact skip_none_ext" if t.params["skip_req"] is None else f"exact (skip_req_ext {t.params['skip_req']})"
        s += f"""
Theorem C10_{t.name} : forall tr, Forall (fun i => In i ob_{t.name}.alpha) tr ->
  stalled_along {ep} {sk} st10_0 tr (map cx_unpack (run {t.modname}.step {t.modname}.init tr)) = true.
Proof.
  intros tr H. rewrite (ob_{t.name}_T.tie tr H (env_ok_true _ _ _ _)), unpack_run.
  apply unsupported_requests_stalled. {ext}.
Qed.
"""
    return s


def tie_theorem_names(targets, tier):
    return [f"C10_{t.name}" for t in targets if t.kind == "small"]


LEVEL_TEXT = ("Machine-checked proof, at the level of LUNA's own interfaces. (1) C10_unsupported_requests_stalled: for every endpoint number, "
              "packet size and skiplist, from every state and for every input history, after the SETUP packet of a request that is unclaimed "
              "(non-standard or skiplisted) or a standard request outside {GET_STATUS, SET_ADDRESS, GET_DESCRIPTOR, GET_CONFIGURATION, "
              "SET_CONFIGURATION, CLEAR_FEATURE(ENDPOINT_HALT) on an endpoint} -- a predicate over all 2^64 setup packets -- and for as long as "
              "that packet is presented: no transmit data or ZLP, no data source started, no address / configuration / endpoint-halt strobe, no "
              "NAK, no ACK other than the SETUP's own and PING answers, and STALL requested exactly when the request handler is asked for data "
              "(data-stage IN) or status (first time only for claimed standard requests, every time for unclaimed ones). With C07_stage_protocol "
              "(restated) those moments are exactly the IN-token / status-stage answer opportunities. (2) Per run, the netlist regenerated from "
              "/repo is proved equal to the model on all traces over the tie alphabets, transferring (1) to the netlist (C10_<target>). "
              "(3) Checked, not proved: specification monitor + model correspondence on simulator traces of the stubbed endpoint and of the complete "
              "USBDevice driven over UTMI (real SETUP decoder / descriptor handler / serializer; requests drawn from templates and at random).")
LEVEL_NOTE = ("The model is the property-satisfying behaviour; the unchanged /repo violates the property: CLEAR_FEATURE with a selector other "
              "than ENDPOINT_HALT (or a non-endpoint recipient) is STALLed in the status stage but the handler stays in CLEAR_FEATURE, so the next "
              "host ACK (any endpoint's) pulses clear_endpoint_halt with the request's wIndex, and every further status request is STALLed again "
              "(findings/C10-clear-feature-selector.json; repaired by findings/C07-fresh-setup.diff, minimal stand-alone repair "
              "findings/C10-clear-feature-selector.diff). Also found through this check: defects (a)/(b) of C07. `./check C10` exits 1 on the "
              "unchanged tree, 0 with the patch. Producers of the interface events are stubs (C01/C02/C04/C06/C09); netlist tie over finite "
              "alphabets. Trusted: Coq kernel + vm_compute, Amaranth elaboration, nir2coq.py/Netlist.v/slice.py (validated against pysim).")
TECHNIQUE = ("Rocq proof: observer-automaton specification + invariant on the handler state (UNHANDLED until first asked, then IDLE; fallback "
             "when unclaimed), no environment hypothesis; certified product-reachability lock-step of the sliced netlist with the model; "
             "specification monitor and model correspondence on simulator traces")
