"""C10 -- unsupported or unclaimed control requests are STALLed, never answered
(luna/gateware/usb/request/standard.py: StandardRequestHandler UNHANDLED / CLEAR_FEATURE;
 luna/gateware/usb/usb2/request.py: USBRequestHandlerMultiplexer fallback StallOnlyRequestHandler; as wired by
 luna/gateware/usb/usb2/control.py: USBControlEndpoint).  Targets, alphabets and trace generators are those of props/C07.py."""
import copy, sys
from harness import tie, tie_explicit
from harness.tie import Obligation
from props import C07 as base

PID = "C10"
TIE_IMPORTS = ("From LunaLib Require Import PackN.\n"
               "From LunaModel Require Import CtlXfer CtlXfer_proofs CtlStall CtlStall_proofs.\n")
ASSUMPTIONS = [
    "same machine and targets as C07 (interface-event level; SETUP decoder, GET_DESCRIPTOR handler and StreamSerializer are port-only "
    "stubs; see props/C07.py ASSUMPTIONS[0])",
    "the theorem C10_unsupported_requests_stalled has NO environment hypothesis: it holds from every state and for every input history; "
    "a request is watched from the cycle after its SETUP packet is reported (setup.received, whatever the token context) while its eight "
    "setup bytes stay presented and no further SETUP packet is reported -- which is how the SETUP decoder drives the record (C06)",
    "reading notes: (1) 'never an ACK' excludes the SETUP decoder's ACK of the SETUP packet itself and the stage FSM's ACK to a PING token "
    "in an OUT phase ([USB2.0 8.5.1], sent whatever the request is); no OUT data packet is ever ACKed; (2) 'STALLed at its first data-stage "
    "IN token or at its status stage': LUNA's UNHANDLED state STALLs the FIRST request for data/status and then returns to idle, later tokens "
    "of that transfer get no answer at all; unclaimed (non-standard / skiplisted) requests are STALLed at every such request by the fallback; "
    "both are stated exactly (stall_cycle_ok); (3) an OUT data stage of an unsupported request is not STALLed by LUNA (the data packets are "
    "left unanswered until the status stage), which the property text allows",
    "skiplist: a predicate of the eight setup bytes (hypothesis skip_ext; true of every LUNA skiplist, which are functions of the SetupPacket)",
    "the bRequest sweep (C10_sweep_<target>) starts from the reset state and follows one fixed event order per setup packet; arbitrary "
    "interleavings are covered by the alphabet tie only for the alphabet's request codes (implemented codes, their 0x40/0x80/0xC0 aliases, "
    "0xFF, and the unsupported templates)",
    "netlist = model is kernel-checked over finite input alphabets (see C07); other field values by correspondence and by the specification "
    "monitor on simulator traces (requests drawn from templates and at random over all fields)",
]

targets = base.targets


def directed_high_requests(rng, ep):
    """for every implemented request code c: STANDARD requests c|0x40, c|0x80, c|0xC0 (and 0xFF), each as a complete
    transfer (status / data stage visited, host ACKs), interleaved with the genuine request c"""
    out = []
    for t in base.HIGH_REQ_TEMPLATES:
        g = base.Gen(rng, ep)
        g.idle(1)
        for s in (t, dict(t, request=t["request"] & 0x3F) if t["request"] != 0xFF else t, t):
            g.setup_xact(s)
            if s["length"]:
                if s["is_in_request"]:
                    g.in_xact(acked=True, data=base.data_stub(rng)); g.out_xact(good=True)
                else:
                    g.out_xact(good=True); g.in_xact(acked=True)
            else:
                g.in_xact(acked=True)
            g.in_xact(acked=True)
        out.append(g.tr)
    return out


def traces(target, rng, tier):
    trs = base.traces(target, rng, tier)
    if target.kind != "e2e":
        trs = directed_high_requests(rng, target.params["ep"]) + trs
    return trs


def sweep(name, target, P, ep):
    """Kernel-checked exhaustive sweep on the regenerated netlist: for ALL 256 bRequest codes of STANDARD requests x 3
    recipients x 3 stage shapes x 2 wValues, the directed transfer sw_trace gives netlist outputs == model outputs."""
    G = target.modname
    defs = f"""
Module {name}.
  Definition traces : list (list N) := sw_all {ep}.
  Definition same (tr : list N) : bool := list_eqb (run {G}.step {G}.init tr) (run (cx_stepN {P}) cx_init tr).
  Definition ob_cex : option (list N) := Eval vm_compute in find (fun tr => negb (same tr)) traces.
  Definition ob_left : nat := 0.
  Definition ob_states : nat := Eval vm_compute in length traces.
End {name}.
"""
    thms = f"""
Module {name}_T.
  Import {name}.
  Lemma all_same : forallb same traces = true.
  Proof. vm_cast_no_check (eq_refl true). Qed.
  Theorem tie : forall tr, In tr (sw_all {ep}) -> run {G}.step {G}.init tr = run (cx_stepN {P}) cx_init tr.
  Proof.
    intros tr H. pose proof all_same as A. rewrite forallb_forall in A.
    apply list_eqb_eq. exact (A tr H).
  Qed.
End {name}_T.
"""
    o = Obligation(name, "R-sweep", target, defs, thms, [f"{name}_T.tie"],
                   f"exhaustive sweep, kernel-checked on the regenerated netlist: all 256 bRequest codes of STANDARD requests x recipient "
                   f"{{device, interface, endpoint}} x {{no data stage, IN data, OUT data}} x wValue {{0, 1}} -- SETUP, then every answer "
                   f"opportunity with a host ACK after each: netlist outputs == model outputs in every cycle")
    def confirm(path, bdir, hdr):
        from harness import check
        shim = copy.copy(o)
        shim.mon_expr = f"(rl_mon cx_state (cx_stepN {P}) cx_enc cx_dec (fun _ _ => true))"
        shim.m0_expr = "(cx_enc cx_init)"
        return check.confirm_on_impl(sys.modules[__name__], shim, path, bdir, hdr)
    o.confirm = confirm
    return o


def obligations(targets, tier):
    obs = []
    for t in targets:
        if t.kind == "e2e":
            obs += base.e2e_obligations(t, targets[0], ("stall",))
            continue
        P = base.coq_params(t)
        if t.kind == "small":
            al = base.alphabet(t.params["ep"], tier, high_req=True)
            if t.params["skip_req"] is None:
                obs.append(sweep(f"sweep_{t.name}", t, P, t.params["ep"]))
            obs.append(tie_explicit.rlock_alpha(
                f"ob_{t.name}", t, St="cx_state", mstep=f"cx_stepN {P}", enc="cx_enc", dec="cx_dec",
                wf="(fun _ => True)", dec_enc="(fun s _ => cx_dec_enc s)", wf_step="(fun _ _ _ => I)",
                m0="cx_init", wf_m0="exact I.", alphabet="[" + "; ".join(str(w) for w in al) + "]", fuel=100000,
                describe=f"USBControlEndpoint(endpoint {t.params['ep']}) + StandardRequestHandler(max_packet_size {t.params['mps']}"
                         f"{', skiplist request ' + str(t.params['skip_req']) if t.params['skip_req'] is not None else ''}) + multiplexer + "
                         f"fallback (sliced netlist) == model, all traces over {len(al)} input words"))
        obs.append(tie.cmon(f"stall_{t.name}", t, mon=f"(c10_mon {t.params['ep']} {base.skip_expr(t)})", m0="(st10_enc st10_0)",
                            describe="specification (unsupported / unclaimed requests: quiet, STALL exactly at the data/status requests) "
                                     "evaluated over simulator traces of the real module"))
        obs.append(tie.corr(f"corr_{t.name}", t, mstep=f"cx_stepN {P}", m0="cx_init",
                            describe="model vs simulator of the real module, every output of every cycle"))
    return obs


def tie_theorems(targets, tier):
    s = ""
    for t in targets:
        if t.kind != "small":
            continue
        ep = t.params["ep"]; sk = base.skip_expr(t)
        ext = "exact skip_none_ext" if t.params["skip_req"] is None else f"exact (skip_req_ext {t.params['skip_req']})"
        s += f"""
Theorem C10_{t.name} : forall tr, Forall (fun i => In i ob_{t.name}.alpha) tr ->
  stalled_along {ep} {sk} st10_0 tr (map cx_unpack (run {t.modname}.step {t.modname}.init tr)) = true.
Proof.
  intros tr H. rewrite (ob_{t.name}_T.tie tr H (env_ok_true _ _ _ _)), unpack_run.
  apply unsupported_requests_stalled. {ext}.
Qed.
"""
        if t.params["skip_req"] is None:
            s += f"""
Theorem C10_sweep_{t.name} : forall r rc ld v, r < 256 -> In rc sw_recipients -> In ld sw_stages -> In v sw_values ->
  let tr := sw_trace {ep} r rc (fst ld) (snd ld) v in
  let outs := map cx_unpack (run {t.modname}.step {t.modname}.init tr) in
  outs = xrun (cx_step {base.coq_params(t)}) cx_init tr /\\ stalled_along {ep} {sk} st10_0 tr outs = true.
Proof.
  intros r rc ld v Hr Hrc Hld Hv. cbv zeta.
  rewrite (sweep_{t.name}_T.tie _ (sw_in {ep} r rc ld v Hr Hrc Hld Hv)), unpack_run.
  split; [reflexivity | apply unsupported_requests_stalled; {ext}].
Qed.
"""
    return s


def tie_theorem_names(targets, tier):
    return [f"C10_{t.name}" for t in targets if t.kind == "small"] + \
           [f"C10_sweep_{t.name}" for t in targets if t.kind == "small" and t.params["skip_req"] is None]


LEVEL_TEXT = ("Machine-checked proof, at the level of LUNA's own interfaces. (1) C10_unsupported_requests_stalled: for every endpoint number, "
              "packet size and skiplist, from every state and for every input history, after the SETUP packet of a request that is unclaimed "
              "(non-standard or skiplisted) or a standard request outside {GET_STATUS, SET_ADDRESS, GET_DESCRIPTOR, GET_CONFIGURATION, "
              "SET_CONFIGURATION, CLEAR_FEATURE(ENDPOINT_HALT) on an endpoint} -- a predicate over all 2^64 setup packets -- and for as long as "
              "that packet is presented: no transmit data or ZLP, no data source started, no address / configuration / endpoint-halt strobe, no "
              "NAK, no ACK other than the SETUP's own and PING answers, and STALL requested exactly when the request handler is asked for data "
              "(data-stage IN) or status (first time only for claimed standard requests, every time for unclaimed ones). With C07_stage_protocol "
              "(restated) those moments are exactly the IN-token / status-stage answer opportunities. (2) Per run, the netlist regenerated from "
              "/repo is proved equal to the model on all traces over the tie alphabets (which include, for every implemented request code c, the "
              "STANDARD requests c|0x40, c|0x80, c|0xC0 and 0xFF), transferring (1) to the netlist (C10_<target>); and an exhaustive kernel-checked "
              "sweep settles the bRequest dimension on the netlist: for ALL 256 bRequest codes of STANDARD requests x recipient {device, "
              "interface, endpoint} x {no data stage, IN data, OUT data} x wValue {0, 1}, the directed transfer (SETUP, then every answer "
              "opportunity with a host ACK after each, from reset) gives netlist outputs = model outputs in every cycle, hence STALL at the "
              "first opportunity and no strobe / data for every unsupported code (C10_sweep_<target>). "
              "(3) Checked, not proved: specification monitor + model correspondence on simulator traces of the stubbed endpoint and of the complete "
              "USBDevice driven over UTMI (real SETUP decoder / descriptor handler / serializer; requests drawn from templates and at random).")
LEVEL_NOTE = ("The model is the property-satisfying behaviour; the unchanged /repo violates the property: CLEAR_FEATURE with a selector other "
              "than ENDPOINT_HALT (or a non-endpoint recipient) is STALLed in the status stage but the handler stays in CLEAR_FEATURE, so the next "
              "host ACK (any endpoint's) pulses clear_endpoint_halt with the request's wIndex, and every further status request is STALLed again "
              "(findings/C10-clear-feature-selector.json; repaired by findings/C07-fresh-setup.diff, minimal stand-alone repair "
              "findings/C10-clear-feature-selector.diff). Also found through this check: defects (a)/(b) of C07. `./check C10` exits 1 on the "
              "unchanged tree, 0 with the patch. Producers of the interface events are stubs (C01/C02/C04/C06/C09); netlist tie over finite "
              "alphabets. Trusted: Coq kernel + vm_compute, Amaranth elaboration, nir2coq.py/Netlist.v/slice.py (validated against pysim).")
TECHNIQUE = ("Rocq proof: observer-automaton specification + invariant on the handler state (UNHANDLED until first asked, then IDLE; fallback "
             "when unclaimed), no environment hypothesis; certified product-reachability lock-step of the sliced netlist with the model; "
             "specification monitor and model correspondence on simulator traces")
