"""C05 -- inter-packet timing (luna/gateware/usb/usb2/packet.py: USBInterpacketTimer)."""
from harness.core import Target
from harness import tie

PID = "C05"
ASSUMPTIONS = [
    "speed is one of the USB speed codes HIGH=0 / FULL=1 / LOW=2 in the cycles the specification is applied to "
    "(code 3 is not a USBSpeed; the model follows the source's final Else there, the specification says nothing)",
    "time is counted in cycles of the `usb` domain clock; 60 MHz = 5 cycles per FS bit, 40 per LS bit, 1/8 per HS bit; "
    "12 MHz = 1 cycle per FS bit. 6.5 FS bit times are the documented 32 cycles at 60 MHz (ULPI 1.1 fig. 18) and 7 cycles at 12 MHz",
    "a start request in cycle s restarts the count in cycle s+1 (registered); reset starts the timer like a request just before cycle 0",
    "tie configurations are LUNA's real ones: (60 MHz, HS-capable), (60 MHz, FS-only), (12 MHz, FS-only), with 1..3 interfaces attached "
    "(USBDevice attaches 2; USBTokenDetector 1); a 12 MHz HS-capable timer cannot be constructed",
    "strobes depend on the current `speed` input combinationally; speed may change at any time",
]
TIE_IMPORTS = "From LunaModel Require Import IpTimer IpTimer_proofs.\n"


def cfg_consts(clock, fs_only):
    """(cmax, counter width, Coq table, spec cycles-per-FS-bit, Coq lemma names)"""
    if clock == 12:
        return dict(cmax=16, w=5, tbl="tbl_12", cpb=1, hs="false", ok="tbl_12_ok", spec="tbl_12_spec")
    b = "true" if fs_only else "false"
    return dict(cmax=80 if fs_only else 640, w=7 if fs_only else 10, tbl=f"(tbl_60 {b})", cpb=5,
                hs="false" if fs_only else "true", ok=f"(tbl_60_ok {b})", spec=f"(tbl_60_spec {b})")


def mk(clock, fs_only, nif, big=False):
    def build():
        from luna.gateware.usb.usb2.packet import USBInterpacketTimer, InterpacketTimerInterface
        d = USBInterpacketTimer(domain_clock=clock * 1e6, fs_only=fs_only)
        ifs = [InterpacketTimerInterface() for _ in range(nif)]
        for i in ifs:
            d.add_interface(i)
        ins = [(f"start{k}", i.start) for k, i in enumerate(ifs)] + [("speed", d.speed)]
        outs = []
        for k, i in enumerate(ifs):
            outs += [(f"tx_allowed{k}", i.tx_allowed), (f"tx_timeout{k}", i.tx_timeout), (f"rx_timeout{k}", i.rx_timeout)]
        return d, ins, outs
    t = Target(f"iptimer_{clock}mhz_{'fs' if fs_only else 'hs'}_n{nif}", build)
    t.params = dict(clock=clock, fs_only=fs_only, nif=nif)
    t.big = big
    return t


def targets(tier):
    ts = [mk(60, False, 1), mk(60, False, 2), mk(60, True, 1), mk(12, True, 2)]
    if tier != "quick":
        ts += [mk(60, True, 2), mk(12, True, 1), mk(60, False, 3), mk(12, True, 3)]
    ts += [mk(60, False, 4, big=True)]
    return ts


def traces(target, rng, tier):
    p = target.params; nif = p["nif"]
    cmax = cfg_consts(p["clock"], p["fs_only"])["cmax"]
    n = 8 if tier == "quick" else 60
    out = []
    for k in range(n):
        length = rng.choice([5, 40, cmax + 5, cmax + 40] + ([2 * cmax + 10] if tier != "quick" else []))
        pstart = rng.choice([0.0, 0.005, 0.02, 0.2])
        pspeed = rng.choice([0.0, 0.0, 0.01, 0.3])
        speed = rng.choice([0, 1, 2, 2, 3]) if k >= 4 else k % 4
        tr = []
        first = rng.random() < 0.5
        for c in range(length):
            if rng.random() < pspeed:
                speed = rng.randrange(4)
            cyc = {"speed": speed}
            for j in range(nif):
                cyc[f"start{j}"] = int(rng.random() < pstart or (first and c == 3 and j == k % nif))
            tr.append(cyc)
        out.append(tr)
    return out


def obligations(targets, tier):
    obs = []
    for t in targets:
        p = t.params; c = cfg_consts(p["clock"], p["fs_only"]); nif = p["nif"]
        mstep = f"ip_step {nif} {c['cmax']} {c['w']} {c['tbl']}"
        desc = (f"USBInterpacketTimer(domain_clock={p['clock']} MHz, fs_only={p['fs_only']}, {nif} interface(s))")
        if t.big:
            obs.append(tie.corr(f"corr_{t.name}", t, mstep=mstep, m0="ip_init",
                                describe=desc + " vs counter model on simulator traces"))
            continue
        obs.append(tie.rlock(
            f"ob_{t.name}", t, St="N", mstep=mstep, enc="ip_enc", dec="ip_dec", wf="ip_wf",
            dec_enc="ip_dec_enc", wf_step="(fun _ _ _ => I)", m0="ip_init", wf_m0="exact I.",
            alpha_bits=nif + 2, fuel=100000,
            describe=desc + " == counter model, all start/speed traces"))
    return obs


def tie_theorems(targets, tier):
    s = ""
    for t in targets:
        if t.big: continue
        p = t.params; c = cfg_consts(p["clock"], p["fs_only"]); nif = p["nif"]
        s += f"""
Theorem C05_{t.name} : forall tr, Forall (fun i => i < 2 ^ N.of_nat {nif + 2}) tr ->
  Forall (fun i => ip_speed {nif} i <= 2) tr ->
  run {t.modname}.step {t.modname}.init tr = run (sp_step {nif} (usb_delays {c['cpb']} {c['hs']})) sp_init tr.
Proof.
  intros tr H Hs. rewrite (ob_{t.name}_T.tie tr H (env_ok_true _ _ _ _)).
  rewrite iptimer_from_reset; [| exact {c['ok']} | vm_compute; reflexivity].
  apply sp_run_ext. eapply Forall_impl; [|exact Hs]. intros i Hi. apply {c['spec']}. exact Hi.
Qed.
"""
    return s


def tie_theorem_names(targets, tier):
    return [f"C05_{t.name}" for t in targets if not t.big]


LEVEL_TEXT = ("Machine-checked proof. (1) For every number of interfaces, delay table, counter limit cmax >= every table entry and counter "
              "width w with cmax+1 < 2^w, the saturating-counter model of USBInterpacketTimer produces, for every start/speed history, exactly "
              "the outputs of the unbounded specification 'strobe iff (cycles elapsed since the most recent start, or reset) = delay for the "
              "currently selected speed' (C05_timer_refines / C05_timer_exact; elapsed = t-s-1 by C05_elapsed_after_start); LUNA's tables "
              "equal the USB 2.0 / ULPI figures for HS/FS/LS at 60 MHz and FS at 12 MHz (C05_luna_60MHz, C05_luna_12MHz). "
              "(2) For each real configuration (60 MHz HS-capable, 60 MHz FS-only, 12 MHz FS-only; 1-3 interfaces) the netlist regenerated "
              "from /repo is proved equal to that specification on all input traces of any length with speed in {HIGH, FULL, LOW} "
              "(certified product reachability + C05_<cfg>). On the unchanged tree obligation (2) FAILS for the HS-capable "
              "configurations: the low-speed branch compares against the high-speed constants (findings/C05-lowspeed.*); it holds with "
              "the candidate patch.")
LEVEL_NOTE = ("Trusted: Coq kernel + vm_compute, Amaranth elaboration, nir2coq.py/Netlist.v (validated each run against pysim). "
              "The tie is at LUNA's actual configurations (no shrinking needed: <= 643 counter states). speed code 3 is outside the "
              "specification (model = source's Else branch there, still tied in lock-step).")
TECHNIQUE = ("Rocq proof: simulation relation (saturating w-bit counter vs unbounded elapsed time) parametric in table/width + "
             "certified product-reachability of the regenerated netlist against the model at the real configurations")
