#!/bin/bash
# Build the static Coq development (Lib, Model, Properties). Offline; everything from files on disk.
set -e
cd "$(dirname "$0")/coq"
coq_makefile -f _CoqProject -o Makefile >/dev/null
timeout 3000 make -j16
