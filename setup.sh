#!/bin/bash
# Build the static Coq development (Lib, Model). Offline; everything from files on disk.
cd "$(dirname "$0")"
export PYTHONPATH=/repo:/verif PYTHONHASHSEED=0 PYTHONDONTWRITEBYTECODE=1
/venv/bin/python - <<'P'
import sys
from harness import core
ok, log = core.ensure_static_built()
print(log[-2000:])
sys.exit(0 if ok else 1)
P
