#!/bin/bash
# Build the static Coq development (Lib + the Model files the claimed properties depend on). Offline.
cd "$(dirname "$0")"
export PYTHONPATH=/repo:/verif PYTHONHASHSEED=0 PYTHONDONTWRITEBYTECODE=1
/venv/bin/python - <<'P'
import sys, json, importlib
from harness import core, check
man = json.load(open("/verif/MANIFEST.json"))
deps = set()
for c in man["checks"]:
    pid = c["property_id"]
    prop = importlib.import_module(f"props.{pid}")
    deps |= set(check.dep_closure(pid, getattr(prop, "TIE_IMPORTS", "")))
ok, log = core.ensure_static_built(sorted(deps))
print(log[-1500:])
print(f"setup: built {len(deps)} files for {len(man['checks'])} claimed properties: {'ok' if ok else 'FAILED'}")
sys.exit(0 if ok else 1)
P
