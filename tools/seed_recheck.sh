#!/bin/bash
# usage: tools/seed_recheck.sh Cxx k [check-pid...]  re-run the check(s) against a stored seeded mutation
pid=$1; k=$2; shift 2; checks=${@:-$pid}
wt=/tmp/seedre_${pid}_${k}; out=/verif/seeded/${pid}_${k}
git -C /repo worktree add --detach $wt >/dev/null 2>&1 || exit 1
( cd $wt && git apply $out/patch.diff ) || { echo "patch no longer applies"; git -C /repo worktree remove --force $wt; exit 1; }
cd /verif
for c in $checks; do
  LUNA_REPO=$wt timeout 1800 ./check $c > $out/check_$c.txt 2>&1; echo "exit=$?" >> $out/check_$c.txt; tail -2 $out/check_$c.txt
done
git -C /repo worktree remove --force $wt
