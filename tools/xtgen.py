"""Bit-level extraction of XOR-only logic from /repo as `xt` terms (coq/Lib/Affine.v), fail-closed.

Two sources:
  ast_to_xt(expr, varmap)            an Amaranth expression returned by a LUNA helper function
                                     (e.g. USBDataPacketCRC._generate_next_crc) over fresh Signals
  nir_cone(nl, const_inputs, value)  the combinational cone of a NIR Value in an elaborated module,
                                     with the listed top-level inputs fixed to constants (control inputs);
                                     variables are flip-flop bits and the remaining input bits.
Anything that is not constant-foldable control or xor/not/constant data raises Unsupported.
"""
from amaranth.hdl import _ast, _nir


class Unsupported(Exception):
    pass


# ---------------------------------------------------------------------------------------------
def ast_to_xt(expr, varmap):
    """expr: Amaranth Value; varmap: {id(Signal): base_index}. Returns list of xt strings, LSB first."""
    def bit(v, i):
        if isinstance(v, _ast.Signal):
            if id(v) not in varmap:
                raise Unsupported(f"free signal {v.name}")
            if i >= len(v):
                return "(K false)"
            return f"(V {varmap[id(v)] + i})"
        if isinstance(v, _ast.Slice):
            if i >= v.stop - v.start:
                return "(K false)"
            return bit(v.value, v.start + i)
        if isinstance(v, _ast.Concat):
            off = 0
            for p in v.parts:
                if i < off + len(p):
                    return bit(p, i - off)
                off += len(p)
            return "(K false)"
        if isinstance(v, _ast.Operator):
            if v.operator == '^' and len(v.operands) == 2:
                return f"(X {bit(v.operands[0], i)} {bit(v.operands[1], i)})"
            if v.operator == '~' and len(v.operands) == 1:
                if i >= len(v.operands[0]):
                    raise Unsupported("~ beyond operand width")
                return f"(Nt {bit(v.operands[0], i)})"
            raise Unsupported(f"operator {v.operator}")
        if isinstance(v, _ast.Const):
            return "(K true)" if (v.value >> i) & 1 else "(K false)"
        raise Unsupported(type(v).__name__)
    return [bit(expr, i) for i in range(len(expr))]


# ---------------------------------------------------------------------------------------------
def nir_cone(nl, const_inputs, value, var_of_net):
    """Symbolically evaluate `value` (a NIR Value).  var_of_net(net) -> variable index or None.
    const_inputs: {top input name: int}.  Returns list of xt strings."""
    cells = nl.cells
    top = nl.top
    const_bits = {}
    for nm, (start, width) in top.ports_i.items():
        if nm in const_inputs:
            for b in range(width):
                const_bits[_nir.Net.from_cell(0, start + b)] = (const_inputs[nm] >> b) & 1
    memo = {}

    def C(b): return ('c', b)
    def is_c(x): return x[0] == 'c'

    def net(n):
        if n in memo:
            return memo[n]
        if n.is_const:
            r = C(n.const)
        elif n in const_bits:
            r = C(const_bits[n])
        else:
            vi = var_of_net(n)
            if vi is not None:
                r = ('t', f"(V {vi})")
            else:
                r = cell_bit(n.cell, n.bit)
        memo[n] = r
        return r

    def val(v):
        return [net(n) for n in v]

    def as_int(bits, what):
        x = 0
        for k, b in enumerate(bits):
            if not is_c(b):
                raise Unsupported(f"non-constant {what}")
            x |= b[1] << k
        return x

    def xt(b):
        return ("(K true)" if b[1] else "(K false)") if is_c(b) else b[1]

    cell_memo = {}

    def cell_out(ci):
        if ci in cell_memo:
            return cell_memo[ci]
        c = cells[ci]
        if isinstance(c, _nir.Operator):
            op = c.operator; ins = [val(v) for v in c.inputs]
            if op == '^':
                out = []
                for a, b in zip(*ins):
                    if is_c(a) and is_c(b): out.append(C(a[1] ^ b[1]))
                    elif is_c(a): out.append(b if a[1] == 0 else ('t', f"(Nt {b[1]})"))
                    elif is_c(b): out.append(a if b[1] == 0 else ('t', f"(Nt {a[1]})"))
                    else: out.append(('t', f"(X {a[1]} {b[1]})"))
            elif op == '~':
                out = [C(1 - a[1]) if is_c(a) else ('t', f"(Nt {a[1]})") for a in ins[0]]
            elif op == '&':
                out = []
                for a, b in zip(*ins):
                    if is_c(a): out.append(b if a[1] else C(0))
                    elif is_c(b): out.append(a if b[1] else C(0))
                    else: raise Unsupported("and of two non-constants")
            elif op == '|':
                out = []
                for a, b in zip(*ins):
                    if is_c(a): out.append(C(1) if a[1] else b)
                    elif is_c(b): out.append(C(1) if b[1] else a)
                    else: raise Unsupported("or of two non-constants")
            elif op == 'm':
                s = as_int(ins[0], "mux select")
                out = ins[1] if s else ins[2]
            elif op in ('==', '!=', 'b', 'r|'):
                xs = [as_int(i, f"operand of {op}") for i in ins]
                r = {'==': lambda: xs[0] == xs[1], '!=': lambda: xs[0] != xs[1],
                     'b': lambda: xs[0] != 0, 'r|': lambda: xs[0] != 0}[op]()
                out = [C(int(r))]
            else:
                raise Unsupported(f"operator {op} in cone")
        elif isinstance(c, _nir.Matches):
            v = as_int(val(c.value), "Matches value")
            w = len(c.value); hit = 0
            for p in c.patterns:
                mask = int(''.join('0' if ch == '-' else '1' for ch in p), 2) if p else 0
                pv = int(p.replace('-', '0'), 2) if p else 0
                if (v & mask) == pv: hit = 1
            out = [C(hit)]
        elif isinstance(c, _nir.PriorityMatch):
            en = as_int([net(c.en)], "PriorityMatch enable")
            x = as_int(val(c.inputs), "PriorityMatch inputs")
            low = (x & -x) if en else 0
            out = [C((low >> k) & 1) for k in range(len(c.inputs))]
        elif isinstance(c, _nir.AssignmentList):
            cur = val(c.default)
            for a in c.assignments:
                cond = as_int([net(a.cond)], "assignment condition")
                if cond:
                    v = val(a.value)
                    cur = cur[:a.start] + v + cur[a.start + len(v):]
            out = cur
        else:
            raise Unsupported(f"cell {type(c).__name__} in cone")
        cell_memo[ci] = out
        return out

    def cell_bit(ci, b):
        return cell_out(ci)[b]

    import sys
    sys.setrecursionlimit(max(sys.getrecursionlimit(), 100000))
    return [xt(net(n)) for n in value]


def ff_of_signal(nl, name_suffix, width=None):
    """Find the flip-flop cell whose output is the Signal with the given name; returns (cell index, cell).
    If no signal of that name drives a flip-flop (e.g. the register was renamed) and `width` is given, fall back to
    the unique flip-flop of that width -- the extraction must not depend on an internal identifier."""
    hits = []
    for sig, v in nl.signals.items():
        if sig.name == name_suffix and len(v) and not v[0].is_const and isinstance(nl.cells[v[0].cell], _nir.FlipFlop):
            if all(n.cell == v[0].cell and n.bit == k for k, n in enumerate(v)):
                hits.append(v[0].cell)
    hits = sorted(set(hits))
    if len(hits) != 1 and width is not None:
        hits = [i for i, c in enumerate(nl.cells) if isinstance(c, _nir.FlipFlop) and len(c.data) == width]
    if len(hits) != 1:
        raise Unsupported(f"register {name_suffix}: {len(hits)} candidates")
    return hits[0], nl.cells[hits[0]]
