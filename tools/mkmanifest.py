"""Regenerate MANIFEST.json from props/*.py (claimed checks) and properties.jsonl (everything else
is listed under not_applicable with the reason recorded in tools/not_claimed.json)."""
import json, importlib, pathlib, sys
V = pathlib.Path(__file__).resolve().parent.parent
sys.path.insert(0, str(V)); sys.path.insert(0, "/repo")
ids = [json.loads(l)["id"] for l in open(V / "properties.jsonl")]
reasons = json.loads((V / "tools" / "not_claimed.json").read_text()) if (V / "tools" / "not_claimed.json").exists() else {}
checks = []; na = []
import subprocess
claimed = set((V / "tools" / "claimed.txt").read_text().split())
for pid in ids:
    if pid in claimed:
        m = importlib.import_module(f"props.{pid}")
        checks.append(dict(
            property_id=pid,
            quick_cmd=f"./check {pid} --tier quick",
            thorough_cmd=f"./check {pid} --tier thorough",
            evidence_file=f"/verif/evidence/{pid}.json",
            replay_cmd_template=f"./check {pid} --replay {{path}}",
            engine="rocq-proof",
            level_claimed=dict(category="proof", text=m.LEVEL_TEXT, design_ref=f"DESIGN.md section 4, {pid}"),
            level_note=m.LEVEL_NOTE,
            technique=m.TECHNIQUE))
    else:
        na.append(dict(property_id=pid, reason=reasons.get(pid, "not yet built: the Rocq model and tie for this property are not written yet (planned in DESIGN.md section 4); nothing is claimed")))
man = dict(
    version=1,
    setup_cmd="./setup.sh",
    hooks=dict(guard="LUNA_VERIF", enable="no hooks: checks elaborate /repo's modules directly (LUNA_VERIF is unused)",
               baseline_off_cmd="cd /repo && /venv/bin/python -m pytest -ra -q -p no:cacheprovider --timeout=900 --continue-on-collection-errors",
               source_commits=[], add_only=True),
    engines=[dict(name="rocq-proof", path="/verif/check",
                  serves_properties=[c["property_id"] for c in checks],
                  kind_free_text="Coq 8.16.1 theorems about (a) a netlist model regenerated from /repo by tools/nir2coq.py on every run and (b) hand-written parametric Gallina models tied to the code by lock-step reachability theorems and simulator correspondence")],
    checks=checks,
    not_applicable=na,
    notes="See DESIGN.md. Every check regenerates its model from /repo's working tree; exit 2 = harness fault.")
(V / "MANIFEST.json").write_text(json.dumps(man, indent=1) + "\n")
print(len(checks), "checks,", len(na), "not claimed")
