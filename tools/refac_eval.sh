#!/bin/bash
# usage: tools/refac_eval.sh Cxx k [check-pid ...]  run checks against a behaviour-preserving refactoring (false-alarm probe)
pid=$1; k=$2; shift 2; checks=${@:-$pid}
wt=/tmp/refac_${pid}_${k}; out=/verif/refactors/${pid}_${k}; mkdir -p $out
( cd $wt && git diff > $out/patch.diff && cp equiv_${pid}.py $out/ 2>/dev/null; git diff --stat | tail -1 > $out/stat.txt )
cd /verif
for c in $checks; do
  LUNA_REPO=$wt timeout 1800 ./check $c > $out/check_$c.txt 2>&1; echo "exit=$?" >> $out/check_$c.txt
  echo "$pid_$k -> $c: $(tail -2 $out/check_$c.txt | tr '\n' ' ' | cut -c1-160)"
done
