#!/bin/bash
# usage: tools/runall.sh [-j N] [--tier t] Cxx ...   -> /verif/_build/runall/<pid>.log, prints summary lines
J=3; TIER=quick
while [[ "$1" == -* ]]; do case "$1" in -j) J=$2; shift 2;; --tier) TIER=$2; shift 2;; esac; done
mkdir -p /verif/_build/runall
printf "%s\n" "$@" | xargs -P $J -I{} bash -c 'cd /verif; s=$(date +%s); timeout 6000 ./check {} --tier '$TIER' > _build/runall/{}.log 2>&1; echo "{} exit=$? $(( $(date +%s)-s ))s $(tail -1 _build/runall/{}.log | cut -c1-150)"'
