"""Create a scratch worktree of /repo and a prompt file for an independent mutation-seeding sub-agent.
usage: seed_prompt.py Cxx k   -> prints prompt path"""
import json, sys, subprocess, pathlib
pid, k = sys.argv[1], sys.argv[2]
wt = f"/tmp/seed_{pid}_{k}"
subprocess.run(["git", "-C", "/repo", "worktree", "add", "--detach", wt], check=True, capture_output=True)
p = [json.loads(l) for l in open("/verif/properties.jsonl") if json.loads(l)["id"] == pid][0]
wt_tag = f"{pid}_{k}"
text = f"""You are helping to evaluate a verification effort for the open-source LUNA USB gateware library (Python / Amaranth HDL).
You have your own scratch git worktree of the repository at {wt} (work ONLY there; never touch /repo or /verif, and do
not read anything under /verif). Python: /venv/bin/python; run things with `cd {wt} && PYTHONPATH={wt} /venv/bin/python ...`
(PYTHONPATH makes `import luna` resolve to your worktree). The existing test suite is run with
`cd {wt} && PYTHONPATH={wt} /venv/bin/python -m pytest -q -p no:cacheprovider --timeout=900 tests` (93 tests pass on the unchanged tree).

Here is a semantic property the library is supposed to satisfy:

  id: {p['id']}
  title: {p['title']}
  statement: {p['statement']}
  quantifier: {p['quantifier']['text']}
  code it is anchored in: {', '.join(p['anchors']['files'])} ({'; '.join(m['name'] + ' @ ' + m['where'] for m in p['anchors']['mechanism'])})

Your job: make ONE realistic change to the library source in your worktree (the kind of bug a maintainer could plausibly
introduce in a refactoring or a feature change: an off-by-one, a wrong comparison, a dropped condition, a stale register, a
swapped priority, a width that is too small, ...) such that
  * the code still imports/elaborates and ALL 93 existing tests still pass, and
  * the property above is violated, but only under something specific — a particular interleaving or stall pattern, a
    multi-step sequence, an unusual input or configuration, a boundary value, or two sites that each look fine alone — NOT
    something ordinary use would expose at once.
Then write a demonstration `{wt}/demo_{pid}.py`: a small self-contained program (Amaranth simulator) that exits 0 / prints PASS
on the unchanged code and exits non-zero / prints FAIL with your change, by exhibiting the violated behaviour.
Verify all three facts yourself (tests pass with the change; demo fails with the change; demo passes without it). To switch,
save your change with `git diff > /tmp/mychange_{wt_tag}.patch`, undo it with `git apply -R` of that file and re-apply it with `git apply` —
NEVER use `git stash` (the stash is shared between all worktrees of this repository and other people are using it). Do not commit. Leave the change applied in the worktree as an uncommitted diff and the demo file in place.
Reply (under 300 words) with: the diff (git diff), what it needs in order to manifest, the key lines of the demo output with and without the change, and the
test-suite summary line with the change.
"""
out = pathlib.Path(f"/tmp/seed_prompt_{pid}_{k}.txt"); out.write_text(text); print(out)
