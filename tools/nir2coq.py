"""nir2coq -- translate an Amaranth design (elaborated from /repo's current working tree) into a
shallow Coq Mealy machine   step : N -> N -> N * N   (packed state, packed inputs -> packed state', packed outputs).

Fail-closed: every NIR cell kind / operator that is not in the table below raises Unsupported.
The only semantics this file contains is the table "cell kind -> helper of coq/Lib/Netlist.v".

The same netlist object is also handed to the harness so that the layout (bit positions of named
inputs / outputs / registers) used for packing traces is the one the Coq text was printed with.
"""
import re, sys, json, hashlib

from amaranth.hdl import Fragment, _nir
from amaranth.hdl._ir import build_netlist, PortDirection


class Unsupported(Exception):
    pass


def san(s):
    s = re.sub(r"[^A-Za-z0-9_]", "_", s)
    if not s or s[0].isdigit():
        s = "_" + s
    return s


def chunks(value):
    """Split a NIR Value into maximal runs: ('c', const, width) | ('n', cell, startbit, width)."""
    out = []; pos = 0
    while pos < len(value):
        n = value[pos]; nxt = pos
        if n.is_const:
            v = 0
            while nxt < len(value) and value[nxt].is_const:
                v |= value[nxt].const << (nxt - pos); nxt += 1
            out.append(('c', v, nxt - pos))
        elif n.is_late:
            raise Unsupported("late-bound net survived resolution")
        else:
            cell = n.cell; sb = n.bit
            while (nxt < len(value) and not value[nxt].is_const and not value[nxt].is_late
                   and value[nxt].cell == cell and value[nxt].bit == sb + (nxt - pos)):
                nxt += 1
            out.append(('n', cell, sb, nxt - pos))
        pos = nxt
    return out


class Layout:
    """Bit layout of the packed state / input / output words."""
    def __init__(self):
        self.inputs = []     # (name, lo, width)
        self.outputs = []    # (name, lo, width)
        self.regs = []       # (name, lo, width, init, kind)
        self.mems = []       # (name, lo, width, depth)
        self.state_width = 0
        self.in_width = 0
        self.out_width = 0
        self.ticks = []      # names of tick inputs (multi-clock only)

    def to_json(self):
        return dict(inputs=self.inputs, outputs=self.outputs, regs=self.regs, mems=self.mems,
                    state_width=self.state_width, in_width=self.in_width, out_width=self.out_width,
                    ticks=self.ticks)


def elaborate(elab, ports):
    """ports: dict name -> (Signal, 'i'|'o').  Returns the NIR netlist."""
    pd = {}
    for name, (sig, d) in ports.items():
        pd[name] = (sig, PortDirection.Input if d == 'i' else PortDirection.Output)
    frag = Fragment.get(elab, None)
    return build_netlist(frag, ports=pd)


def emit(nl, modname, in_names, out_names, const_inputs=None):
    """Print netlist `nl` as Coq.  in_names/out_names: port names in packing order.
    const_inputs: dict of top input name -> constant (e.g. rst -> 0)."""
    const_inputs = dict(const_inputs or {})
    cells = nl.cells
    top = nl.top
    lay = Layout()

    # ---- clocks
    seq_cells = [i for i, c in enumerate(cells)
                 if isinstance(c, (_nir.FlipFlop, _nir.SyncReadPort, _nir.SyncWritePort))]
    clocks = []
    for i in seq_cells:
        c = cells[i]
        if c.clk_edge != 'pos':
            raise Unsupported("negedge clock")
        if isinstance(c, _nir.FlipFlop) and not (c.arst.is_const and c.arst.const == 0):
            # an async reset is acceptable only when it is a top-level input tied to constant 0
            ok_arst = False
            if (not c.arst.is_const) and c.arst.cell == 0:
                for nm, (start, width) in top.ports_i.items():
                    if start <= c.arst.bit < start + width and nm in const_inputs \
                            and ((const_inputs[nm] >> (c.arst.bit - start)) & 1) == 0:
                        ok_arst = True
            if not ok_arst:
                raise Unsupported("async reset")
        if c.clk not in clocks:
            clocks.append(c.clk)
    # name the clock inputs
    clk_name = {}
    for nm, (start, width) in top.ports_i.items():
        for clk in clocks:
            if not clk.is_const and clk.cell == 0 and start <= clk.bit < start + width:
                clk_name[clk] = nm
    for clk in clocks:
        if clk not in clk_name:
            raise Unsupported("clock is not a top-level input")
    multi = len(clocks) > 1

    # ---- input layout
    pos = 0
    top_in = dict(top.ports_i)
    for nm in in_names:
        if nm not in top_in:
            # input unused by the design: keep a slot so packing is stable
            raise Unsupported(f"declared input {nm} is not a top-level input of the netlist (unused?)")
    declared = set(in_names)
    for nm in top_in:
        if nm in declared or nm in const_inputs or nm in clk_name.values():
            continue
        raise Unsupported(f"netlist has undeclared top input {nm}")
    for nm in in_names:
        w = top_in[nm][1]
        lay.inputs.append((nm, pos, w)); pos += w
    if multi:
        for clk in clocks:
            tn = "tick_" + clk_name[clk]
            lay.inputs.append((tn, pos, 1)); lay.ticks.append(tn); pos += 1
    lay.in_width = pos
    in_slot = {nm: (lo, w) for nm, lo, w in lay.inputs}

    # ---- state layout
    sig_of_value = {}
    for sig, val in nl.signals.items():
        sig_of_value.setdefault(tuple(val), sig)
    used_names = {}
    def uniq(n):
        n = san(n)
        k = used_names.get(n, 0); used_names[n] = k + 1
        return n if k == 0 else f"{n}__{k}"
    pos = 0
    reg_slot = {}
    for i, c in enumerate(cells):
        if isinstance(c, _nir.FlipFlop):
            w = len(c.data)
            key = tuple(_nir.Net.from_cell(i, b) for b in range(w))
            sig = sig_of_value.get(key)
            hier = [x for x in nl.modules[c.module_idx].name[1:]]
            nm = uniq("_".join(hier + [sig.name if sig is not None else f"ff{i}"]))
            lay.regs.append((nm, pos, w, c.init & ((1 << w) - 1), 'ff')); reg_slot[i] = (pos, w); pos += w
        elif isinstance(c, _nir.SyncReadPort):
            w = c.width
            hier = [x for x in nl.modules[c.module_idx].name[1:]]
            nm = uniq("_".join(hier + [f"rdport{i}"]))
            lay.regs.append((nm, pos, w, 0, 'rd')); reg_slot[i] = (pos, w); pos += w
    mem_slot = {}
    for i, c in enumerate(cells):
        if isinstance(c, _nir.Memory):
            nm = uniq("mem_" + c.name)
            init = 0
            for k, v in enumerate(c.init):
                init |= (v & ((1 << c.width) - 1)) << (k * c.width)
            lay.mems.append((nm, pos, c.width, c.depth)); mem_slot[i] = (pos, c.width, c.depth, init)
            pos += c.width * c.depth
    lay.state_width = pos

    # ---- widths of comb cells
    width = {}
    for i, c in enumerate(cells):
        if isinstance(c, _nir.Top):
            continue
        if isinstance(c, _nir.Operator): w = c.width
        elif isinstance(c, _nir.Matches): w = 1
        elif isinstance(c, _nir.PriorityMatch): w = len(c.inputs)
        elif isinstance(c, _nir.AssignmentList): w = len(c.default)
        elif isinstance(c, _nir.FlipFlop): w = len(c.data)
        elif isinstance(c, _nir.Part): w = c.width
        elif isinstance(c, _nir.SyncReadPort): w = c.width
        elif isinstance(c, (_nir.Memory, _nir.SyncWritePort)): w = 0
        else:
            raise Unsupported(f"cell kind {type(c).__name__}")
        width[i] = w

    # ---- value printing
    def ref(cell, sb, w):
        if cell == 0:
            for nm, (start, pw) in top.ports_i.items():
                if start <= sb < start + pw:
                    if sb + w > start + pw:
                        raise Unsupported("chunk spans two top inputs")
                    if nm in const_inputs:
                        return str((const_inputs[nm] >> (sb - start)) & ((1 << w) - 1))
                    if nm in clk_name.values():
                        raise Unsupported("clock used as data")
                    lo, _ = in_slot[nm]
                    return f"(bits inp {lo + sb - start} {w})"
            raise Unsupported("unknown top net")
        base = f"c{cell}"; full = width[cell]
        if sb == 0 and w == full:
            return base
        return f"(bits {base} {sb} {w})"

    def val(value):
        if isinstance(value, _nir.Net):
            value = _nir.Value([value])
        parts = []; off = 0
        for ch in chunks(value):
            if ch[0] == 'c':
                if ch[1]:
                    parts.append(f"(N.shiftl {ch[1]} {off})" if off else f"{ch[1]}")
                off += ch[2]
            else:
                _, cell, sb, w = ch
                pieces = [(sb, w)]
                if cell == 0:
                    # a run of Top bits may cross top-level port boundaries: split it per port
                    pieces = []; cur = sb; end = sb + w
                    while cur < end:
                        for nm, (start, pw) in top.ports_i.items():
                            if start <= cur < start + pw:
                                take = min(end, start + pw) - cur
                                pieces.append((cur, take)); cur += take
                                break
                        else:
                            raise Unsupported("unknown top net")
                for (psb, pw_) in pieces:
                    e = ref(cell, psb, pw_)
                    parts.append(f"(N.shiftl {e} {off})" if off else e)
                    off += pw_
        if not parts:
            return "0"
        e = parts[0]
        for p in parts[1:]:
            e = f"(N.lor {e} {p})"
        return e

    # ---- dependencies and topological order of combinational cells
    def deps(c):
        vs = []
        if isinstance(c, _nir.Operator): vs = list(c.inputs)
        elif isinstance(c, _nir.Matches): vs = [c.value]
        elif isinstance(c, _nir.PriorityMatch): vs = [_nir.Value([c.en]), c.inputs]
        elif isinstance(c, _nir.AssignmentList):
            vs = [c.default] + [_nir.Value([a.cond]) for a in c.assignments] + [a.value for a in c.assignments]
        elif isinstance(c, _nir.Part): vs = [c.value, c.offset]
        d = set()
        for v in vs:
            for n in v:
                if (not n.is_const) and n.cell != 0 and not isinstance(cells[n.cell], (_nir.FlipFlop, _nir.SyncReadPort)):
                    d.add(n.cell)
        return d
    order = []; seen = {}
    sys.setrecursionlimit(max(sys.getrecursionlimit(), 200000))
    def visit(i):
        if seen.get(i) == 2: return
        if seen.get(i) == 1: raise Unsupported("combinational cycle")
        seen[i] = 1
        for d in sorted(deps(cells[i])): visit(d)
        seen[i] = 2; order.append(i)
    comb = [i for i, c in enumerate(cells)
            if isinstance(c, (_nir.Operator, _nir.Matches, _nir.PriorityMatch, _nir.AssignmentList, _nir.Part))]
    for i in comb: visit(i)

    L = []
    A = L.append
    A(f"(* GENERATED by tools/nir2coq.py from the current /repo working tree -- do not edit. *)")
    A("From Coq Require Import NArith ZArith List Bool. Import ListNotations.")
    A("From LunaLib Require Import Netlist.")
    A("Open Scope N_scope.")
    A(f"Module {modname}.")
    A(f"Definition state_width : N := {lay.state_width}.")
    A(f"Definition in_width : N := {lay.in_width}.")
    for nm, lo, w in lay.inputs:
        A(f"Definition i_{san(nm)} (inp : N) : N := bits inp {lo} {w}.")
    A("Definition mk_in " + " ".join(f"({san(nm)} : N)" for nm, _, _ in lay.inputs) + " : N :=")
    A("  " + " + ".join(f"N.shiftl (trunc {w} {san(nm)}) {lo}" for nm, lo, w in lay.inputs) + " + 0.")
    for nm, lo, w, init, kind in lay.regs:
        A(f"Definition r_{nm} (st : N) : N := bits st {lo} {w}.")
    for nm, lo, w, depth in lay.mems:
        A(f"Definition {nm} (st : N) (a : N) : N := bits st ({lo} + a * {w}) {w}.")
    init = 0
    for nm, lo, w, iv, kind in lay.regs:
        init |= iv << lo
    for i, (lo, w, depth, iv) in mem_slot.items():
        init |= iv << lo
    A(f"Definition init : N := {init}.")
    A("Definition step (st inp : N) : N * N :=")
    for i, (lo, w) in reg_slot.items():
        A(f"  let c{i} := bits st {lo} {w} in")
    for i, (lo, w, depth, iv) in mem_slot.items():
        A(f"  let m{i} := bits st {lo} {w * depth} in")
    for i in order:
        c = cells[i]; w = width[i]
        if isinstance(c, _nir.Operator):
            a = [val(v) for v in c.inputs]; op = c.operator; iw = len(c.inputs[0])
            n = len(c.inputs)
            if n == 1:
                if op == '~': e = f"op_not {w} {a[0]}"
                elif op == '-': e = f"op_neg {w} {a[0]}"
                elif op in ('b', 'r|'): e = f"op_bool {a[0]}"
                elif op == 'r&': e = f"op_rand {iw} {a[0]}"
                elif op == 'r^': e = f"op_rxor {a[0]}"
                else: raise Unsupported(f"unary operator {op}")
            elif n == 2:
                tbl = {'&': "N.land", '|': "N.lor", '^': "N.lxor", 'u>>': "N.shiftr",
                       '==': "op_eq", '!=': "op_ne", 'u<': "op_ult", 'u<=': "op_ule", 'u>': "op_ugt", 'u>=': "op_uge"}
                tblw = {'+': "op_add", '-': "op_sub", '*': "op_mul", '<<': "op_shl"}
                tbls = {'s<': "op_slt", 's<=': "op_sle", 's>': "op_sgt", 's>=': "op_sge"}
                if op in tbl: e = f"{tbl[op]} {a[0]} {a[1]}"
                elif op in tblw: e = f"{tblw[op]} {w} {a[0]} {a[1]}"
                elif op in tbls: e = f"{tbls[op]} {iw} {a[0]} {a[1]}"
                else: raise Unsupported(f"binary operator {op}")
            elif n == 3 and op == 'm':
                e = f"sel {a[0]} {a[1]} {a[2]}"
            else:
                raise Unsupported(f"operator {op}/{n}")
            A(f"  let c{i} := {e} in")
        elif isinstance(c, _nir.Matches):
            alts = []
            for p in c.patterns:
                mask = int(''.join('0' if ch == '-' else '1' for ch in p), 2) if p else 0
                pv = int(p.replace('-', '0'), 2) if p else 0
                alts.append(f"({mask}, {pv})")
            A(f"  let c{i} := op_matches {val(c.value)} [{'; '.join(alts)}] in")
        elif isinstance(c, _nir.PriorityMatch):
            A(f"  let c{i} := op_pmatch {val(c.en)} {val(c.inputs)} in")
        elif isinstance(c, _nir.AssignmentList):
            cur = f"c{i}_0" if c.assignments else f"c{i}"
            A(f"  let {cur} := {val(c.default)} in")
            for k, a in enumerate(c.assignments):
                aw = len(a.value)
                if a.start + aw > w:
                    raise Unsupported("out-of-range assignment")
                if a.start == 0 and aw == w:
                    upd = val(a.value)
                else:
                    upd = f"(setbits {cur} {a.start} {aw} {val(a.value)})"
                nxt_name = f"c{i}" if k == len(c.assignments) - 1 else f"c{i}_{k + 1}"
                A(f"  let {nxt_name} := sel {val(a.cond)} {upd} {cur} in")
                cur = nxt_name
        elif isinstance(c, _nir.Part):
            if c.value_signed:
                raise Unsupported("signed Part")
            A(f"  let c{i} := op_part {val(c.value)} {val(c.offset)} {c.stride} {c.width} in")
        else:
            raise Unsupported(type(c).__name__)

    # ---- next state
    def tick_of(clk):
        if not multi:
            return None
        lo, _ = in_slot["tick_" + clk_name[clk]]
        return f"(bits inp {lo} 1)"
    nxt = []
    for i, (lo, w) in reg_slot.items():
        c = cells[i]
        if isinstance(c, _nir.FlipFlop):
            e = val(c.data)
        else:  # SyncReadPort
            mlo, mw, mdepth, _ = mem_slot[c.memory]
            rd = f"(mem_read m{c.memory} {mw} {mdepth} {val(c.addr)})"
            for wp in c.transparent_for:
                wc = cells[wp]
                rd = f"(mem_transparent {rd} {mw} {val(c.addr)} {val(wc.addr)} {val(wc.en)} {len(wc.en)} {val(wc.data)})"
            e = f"sel {val(c.en)} {rd} c{i}"
        t = tick_of(c.clk)
        if t: e = f"sel {t} ({e}) c{i}"
        A(f"  let n{i} := {e} in")
        nxt.append(f"N.shiftl n{i} {lo}" if lo else f"n{i}")
    for i, (lo, w, depth, iv) in mem_slot.items():
        cur = f"m{i}"; k = 0
        for j, wc in enumerate(cells):
            if isinstance(wc, _nir.SyncWritePort) and wc.memory == i:
                e = f"mem_write {cur} {w} {depth} {val(wc.addr)} {val(wc.en)} {len(wc.en)} {val(wc.data)}"
                t = tick_of(wc.clk)
                if t: e = f"sel {t} ({e}) {cur}"
                k += 1
                A(f"  let nm{i}_{k} := {e} in")
                cur = f"nm{i}_{k}"
        A(f"  let nm{i} := {cur} in")
        nxt.append(f"N.shiftl nm{i} {lo}" if lo else f"nm{i}")
    # ---- outputs
    top_out = dict(top.ports_o)
    outs = []; pos = 0
    for nm in out_names:
        if nm not in top_out:
            raise Unsupported(f"declared output {nm} missing from netlist")
        v = top_out[nm]; w = len(v)
        lay.outputs.append((nm, pos, w))
        outs.append(f"N.shiftl {val(v)} {pos}" if pos else val(v)); pos += w
    lay.out_width = pos
    A("  (" + (" + ".join(nxt) if nxt else "0") + ",")
    A("   " + (" + ".join(outs) if outs else "0") + ").")
    for nm, lo, w in lay.outputs:
        A(f"Definition o_{san(nm)} (out : N) : N := bits out {lo} {w}.")
    A(f"Definition out_width : N := {lay.out_width}.")
    A(f"End {modname}.")
    text = "\n".join(L) + "\n"
    return text, lay


def pack(slots, values):
    """slots: [(name, lo, width)], values: dict name->int. Missing names are 0."""
    x = 0
    for nm, lo, w in slots:
        x |= (int(values.get(nm, 0)) & ((1 << w) - 1)) << lo
    return x


def unpack(slots, x):
    return {nm: (x >> lo) & ((1 << w) - 1) for nm, lo, w in slots}
