#!/bin/bash
# usage: tools/coqchk_all.sh   re-check every compiled property file (and everything it depends on) with Coq's independent
# checker and list the axioms they rely on (-o).  Needs the .vo files of a preceding ./check run of every property.
# Output: docs/coqchk_all.txt (context summary per batch; "Axioms: <none>" expected).
cd /verif/coq || exit 1
out=/verif/docs/coqchk_all.txt; : > $out
mods=$(ls Properties/*.vo | sed 's#Properties/\(.*\)\.vo#LunaProps.\1#')
echo "# coqchk -o -silent over: $(echo $mods | wc -w) property modules, $(date -u +%FT%TZ), /repo $(git -C /repo rev-parse --short HEAD)" >> $out
# batches of 8 modules keep memory below 4 GB
echo $mods | xargs -n 8 | while read batch; do
  echo "## $batch" >> $out
  timeout 3000 coqchk -o -silent -Q Lib LunaLib -Q Model LunaModel -Q Properties LunaProps $batch >> $out 2>&1
  echo "exit=$?" >> $out
done
grep -c "Axioms: <none>" $out; grep -v "exit=0" $out | grep "^exit" 
