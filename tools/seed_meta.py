import sys, json, pathlib, re
pid, k, needs = sys.argv[1], sys.argv[2], sys.argv[3]
d = pathlib.Path(f"/verif/seeded/{pid}_{k}")
res = {}
for f in d.glob("check_*.txt"):
    t = f.read_text()
    m = re.search(r"(VIOLATION[^\n]*|OK property[^\n]*|HARNESS-FAULT[^\n]*)", t)
    res[f.stem.replace("check_", "")] = m.group(1) if m else t[-200:]
meta = dict(property=pid, seed=f"{pid}_{k}", breaks=pid, needs_to_manifest=needs,
            confirmed=dict(demo_with_change=(d / "demo_with.txt").read_text().strip().splitlines()[-1],
                           demo_without_change=(d / "demo_without.txt").read_text().strip().splitlines()[-1],
                           tests_with_change=(d / "tests_with.txt").read_text().strip()),
            ran=f"tools/seed_eval.sh {pid} {k}: patch rebased on /repo HEAD in a scratch worktree, demo with/without, 93 tests, LUNA_REPO=<worktree> ./check",
            check_results=res,
            detected=any(v.startswith("VIOLATION") for v in res.values()),
            detected_by_own_check=res.get(pid, "").startswith("VIOLATION"))
(d / "meta.json").write_text(json.dumps(meta, indent=1) + "\n"); print(json.dumps(meta["check_results"]), meta["detected"])
