#!/bin/bash
# usage: tools/seed_eval.sh Cxx k [check-pid ...]   evaluate a seeded mutation living in /tmp/seed_Cxx_k
pid=$1; k=$2; shift 2; checks=${@:-$pid}
wt=/tmp/seed_${pid}_${k}; out=/verif/seeded/${pid}_${k}; mkdir -p $out
cd $wt || exit 1
git diff > $out/patch.diff
cp demo_${pid}.py $out/ 2>/dev/null
# bring the worktree to /repo's current HEAD with the patch on top
git apply -R $out/patch.diff; git checkout -q --detach $(git -C /repo rev-parse HEAD); git apply $out/patch.diff || { echo "patch does not apply on current HEAD"; exit 1; }
export PYTHONPATH=$wt PYTHONHASHSEED=0
echo "== demo with change"; timeout 600 /venv/bin/python demo_${pid}.py > $out/demo_with.txt 2>&1; echo "exit=$?" | tee -a $out/demo_with.txt
git apply -R $out/patch.diff
echo "== demo without change"; timeout 600 /venv/bin/python demo_${pid}.py > $out/demo_without.txt 2>&1; echo "exit=$?" | tee -a $out/demo_without.txt
git apply $out/patch.diff
echo "== tests with change"; timeout 1200 /venv/bin/python -m pytest -q -p no:cacheprovider --timeout=900 tests 2>&1 | tail -1 | tee $out/tests_with.txt
cd /verif
for c in $checks; do
  echo "== ./check $c against mutated tree"
  LUNA_REPO=$wt timeout 1500 ./check $c > $out/check_$c.txt 2>&1; echo "exit=$?" >> $out/check_$c.txt; tail -2 $out/check_$c.txt
done
