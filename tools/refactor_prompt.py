"""Prompt for a behaviour-PRESERVING refactoring agent (false-alarm probe). usage: refactor_prompt.py Cxx k"""
import json, sys, subprocess, pathlib
pid, k = sys.argv[1], sys.argv[2]
wt = f"/tmp/refac_{pid}_{k}"
subprocess.run(["git", "-C", "/repo", "worktree", "add", "--detach", wt], check=True, capture_output=True)
p = [json.loads(l) for l in open("/verif/properties.jsonl") if json.loads(l)["id"] == pid][0]
text = f"""You are helping to evaluate a verification effort for the open-source LUNA USB gateware library (Python / Amaranth HDL).
You have your own scratch git worktree of the repository at {wt} (work ONLY there; never touch /repo or /verif, and do
not read anything under /verif). Python: /venv/bin/python; run things with `cd {wt} && PYTHONPATH={wt} /venv/bin/python ...`.
The existing test suite: `cd {wt} && PYTHONPATH={wt} /venv/bin/python -m pytest -q -p no:cacheprovider --timeout=900 tests` (93 tests pass).

Here is a semantic property the library satisfies:

  id: {p['id']}
  title: {p['title']}
  statement: {p['statement']}
  code it is anchored in: {', '.join(p['anchors']['files'])} ({'; '.join(m['name'] + ' @ ' + m['where'] for m in p['anchors']['mechanism'])})

Your job: make a realistic, NON-TRIVIAL but strictly BEHAVIOUR-PRESERVING refactoring of the anchored gateware code in your
worktree — the kind of clean-up a maintainer does: rename internal signals and FSM states, reorder FSM states or independent
statements, turn If/Elif chains into Switch (or back) where equivalent, factor a repeated expression into a named combinational
signal or a helper, change an internal encoding that is not observable, restructure nested conditions with equivalent logic,
split or merge comb assignments. Touch several places (at least ~15 changed lines). It must NOT change the cycle-by-cycle
behaviour of any port/attribute of the classes involved (same outputs in every cycle for every input history, same reset values,
same public attribute names and widths), and must not change module hierarchy names of memories if any.
Then convince yourself it is behaviour-preserving: write `{wt}/equiv_{pid}.py`, a randomized differential test that builds the
ORIGINAL class (import it from /repo via importlib with a different module name, or from `git show HEAD:<path>` saved to a temp
file) and your refactored class, drives both with the same few thousand random input cycles (Amaranth simulator) and compares
all outputs every cycle; it must print PASS. Also run the 93 tests. Do not use `git stash`. Do not commit. Leave the change as
an uncommitted diff. Reply (under 150 words) with: git diff --stat, a two-line description of what you refactored, the equivalence test result,
and the test-suite summary line.
"""
out = pathlib.Path(f"/tmp/refac_prompt_{pid}_{k}.txt"); out.write_text(text); print(out)
